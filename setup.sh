#!/bin/bash
# Offline setup: nothing to build (pybads is an editable install read from /repo;
# specs are checked by the pre-installed TLC).  Verify the tools are present.
set -e
cd "$(dirname "$0")"
mkdir -p .cache evidence replays
command -v java >/dev/null
test -f /opt/veriftools/tla/tla2tools.jar
/venv/bin/python -c "import numpy, scipy, gpyreg, jsonschema"
PYTHONPATH=/repo /venv/bin/python -W ignore -c "import pybads" 2>/dev/null
echo "setup ok"
