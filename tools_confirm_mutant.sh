#!/bin/bash
# usage: tools_confirm_mutant.sh <name e.g. C01_a> <property> <detected-by text>
# Confirms a seeded change in a scratch worktree of /repo HEAD and archives it under /verif/seeded/<name>/
N="$1"; PROP="$2"; DET="$3"
SRC=/tmp/seeded_out/$N
WT=/tmp/wt/confirm_$N
git -C /repo worktree add -q --detach $WT HEAD || exit 2
cd $WT
R0=$( /venv/bin/python -W ignore $SRC/demo.py >/tmp/confirm_$N.base.log 2>&1; echo $? )
if ! git apply --check $SRC/patch.diff; then echo "$N: patch does not apply to HEAD"; cd /; git -C /repo worktree remove --force $WT; exit 3; fi
git apply $SRC/patch.diff
R1=$( /venv/bin/python -W ignore $SRC/demo.py >/tmp/confirm_$N.mut.log 2>&1; echo $? )
T=$( /venv/bin/python -m pytest -q -p no:cacheprovider --timeout=900 pybads/testing 2>&1 | tail -1 )
cd /
git -C /repo worktree remove --force $WT
echo "$N: demo unpatched exit=$R0 patched exit=$R1 tests: $T"
if [ "$R0" = "0" ] && [ "$R1" = "1" ]; then
  mkdir -p /verif/seeded/$N
  cp $SRC/patch.diff $SRC/demo.py /verif/seeded/$N/
  /venv/bin/python - "$N" "$PROP" "$DET" "$R0" "$R1" "$T" <<'PY'
import json, sys
n, prop, det, r0, r1, t = sys.argv[1:7]
m = json.load(open(f"/tmp/seeded_out/{n}/meta.json"))
m["property"] = prop
m["confirmed_by_me"] = {"scratch_worktree": "git worktree of /repo HEAD (with hook+fix commits), removed afterwards",
                        "demo_exit_unpatched": int(r0), "demo_exit_patched": int(r1), "test_suite_with_patch": t}
m["detected_by"] = det
json.dump(m, open(f"/verif/seeded/{n}/meta.json", "w"), indent=1)
PY
  echo "archived /verif/seeded/$N"
fi
