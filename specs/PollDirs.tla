------------------------------ MODULE PollDirs ------------------------------
(***************************************************************************)
(* The LTMADS direction generator pybads/poll/poll_mads_2n.py as a         *)
(* function of its random choices (function-spec route: the inputs are     *)
(* the initial states, Next stutters, the properties are invariants).      *)
(*                                                                         *)
(*   n    mesh ratio (n_max in the code)                                   *)
(*   low  strictly lower triangular entries, each in -(n-1)..(n-1)         *)
(*        (rnd.randint(1, 2n, (D,D)) - n, np.tril(.,-1))                   *)
(*   sgn  diagonal signs: entry sgn[i]*n   (n*2*(randint(1,3,D)-1.5))      *)
(*   perm row permutation (rnd.permutation), then transpose                *)
(* The generator returns [M; -M] (divided by poll_scale, which the poll    *)
(* step multiplies back).                                                  *)
(***************************************************************************)
EXTENDS Integers, Sequences, FiniteSets, TLC

CONSTANTS Dim, N

Idx == 1 .. Dim
LowIdx == {p \in Idx \X Idx : p[1] > p[2]}
Perms == {f \in [Idx -> Idx] : \A i, j \in Idx : f[i] = f[j] => i = j}

VARIABLES low, sgn, perm, dirs

vars == <<low, sgn, perm, dirs>>

\* lower triangular matrix with +-N diagonal
LT(l, s) == [i \in Idx |-> [j \in Idx |->
               IF i = j THEN s[i] * N ELSE IF i > j THEN l[<<i, j>>] ELSE 0]]
\* rows permuted, then transposed
Mat(l, s, p) == LET P == [r \in Idx |-> LT(l, s)[p[r]]]
                IN [i \in Idx |-> [j \in Idx |-> P[j][i]]]
NegRow(v) == [j \in Idx |-> 0 - v[j]]
Dirs(l, s, p) == LET M == Mat(l, s, p)
                 IN [r \in 1 .. 2 * Dim |-> IF r <= Dim THEN M[r] ELSE NegRow(M[r - Dim])]

Init ==
  /\ low \in [LowIdx -> (1 - N) .. (N - 1)]
  /\ sgn \in [Idx -> {-1, 1}]
  /\ perm \in Perms
  /\ dirs = Dirs(low, sgn, perm)

Next == UNCHANGED vars
Spec == Init /\ [][Next]_vars

-----------------------------------------------------------------------------
Abs(x) == IF x < 0 THEN 0 - x ELSE x
M0 == [i \in Idx |-> dirs[i]]

Det ==
  IF Dim = 1 THEN M0[1][1]
  ELSE IF Dim = 2 THEN M0[1][1] * M0[2][2] - M0[1][2] * M0[2][1]
  ELSE M0[1][1] * (M0[2][2] * M0[3][3] - M0[2][3] * M0[3][2])
     - M0[1][2] * (M0[2][1] * M0[3][3] - M0[2][3] * M0[3][1])
     + M0[1][3] * (M0[2][1] * M0[3][2] - M0[2][2] * M0[3][1])

Pow(b, e) == IF e = 1 THEN b ELSE IF e = 2 THEN b * b ELSE b * b * b

\* C14: the D base directions form a non-singular integer matrix
NonSingular == Det # 0
DetIsNPowD  == Abs(Det) = Pow(N, Dim)
\* entries bounded by the mesh ratio, the +-N "diagonal" entry present in every row/column
EntriesBounded == \A i \in Idx : \A j \in Idx : Abs(M0[i][j]) <= N
\* the set is {+d_i} u {-d_i}
Symmetric == \A i \in Idx : dirs[Dim + i] = NegRow(dirs[i])
AllDistinct == Cardinality({dirs[r] : r \in 1 .. 2 * Dim}) = 2 * Dim
\* with mesh ratio 1: exactly the signed coordinate directions
SignedPermutation ==
  N = 1 => /\ \A r \in 1 .. 2 * Dim : Cardinality({j \in Idx : dirs[r][j] # 0}) = 1
           /\ \A r \in 1 .. 2 * Dim : \A j \in Idx : dirs[r][j] \in {-1, 0, 1}
           /\ AllDistinct
=============================================================================
