------------------------------- MODULE FuncLog -------------------------------
(***************************************************************************)
(* The evaluation log pybads/function_logger/function_logger.py            *)
(* (FunctionLogger.__call__, add, _record, _expand_arrays).                *)
(*                                                                         *)
(* The log is a sequence of records, one per recorded evaluation, in call  *)
(* order.  Values are exact rationals <<num, den>>; a reported SD s enters  *)
(* as its precision tau = 1/s^2, and SDs are drawn from {1, 1/2} so that    *)
(* precisions are the integers {1, 4} and the precision-weighted mean is   *)
(* exact.                                                                  *)
(*                                                                         *)
(*   Specified = TRUE : the target reports (value, SD)  (level 2)          *)
(*   Specified = FALSE: no SD is reported (deterministic / unknown noise)  *)
(***************************************************************************)
EXTENDS Integers, Sequences, FiniteSets, TLC

CONSTANTS Points,     \* finite set of points (model values or tuples)
          Vals,       \* finite set of integer target values
          Precs,      \* finite set of integer precisions (1/SD^2)
          Specified,  \* BOOLEAN
          Cap0,       \* initial capacity (cache_size)
          MaxOps      \* bound on the number of operations (history length)

VARIABLES log,    \* Seq of [x, num, den, tau, n]
          fc,     \* func_count: number of successful target calls
          cc,     \* cache_count: number of add() calls
          cap,    \* allocated rows
          hist,   \* operation history (binding: replayed into the real class)
          last,   \* index of the record touched by the last operation (0: none)
          obsT,   \* ghost: per point, sum of precisions of observations merged there
          obsTV,  \* ghost: per point, sum of precision * value
          obsN    \* ghost: per point, number of observations counted on a record

vars == <<log, fc, cc, cap, hist, last, obsT, obsTV, obsN>>

Idx(p) == {i \in DOMAIN log : log[i].x = p}
Max2(a, b) == IF a >= b THEN a ELSE b
\* _expand_arrays: grow by max(ceil(Xn/2), 1) rows, Xn = 0-based index of the new row
Grow(c, newLen) == IF newLen > c
                   THEN c + Max2(((newLen - 1) + 1) \div 2, 1)
                   ELSE c

Init ==
  /\ log = <<>> /\ fc = 0 /\ cc = 0 /\ cap = Cap0 /\ hist = <<>> /\ last = 0
  /\ obsT = [p \in Points |-> 0] /\ obsTV = [p \in Points |-> 0]
  /\ obsN = [p \in Points |-> 0]

\* append a new record for an observation (p, v) with precision t
Append1(p, v, t) ==
  /\ log' = Append(log, [x |-> p, num |-> v, den |-> 1, tau |-> t, n |-> 1])
  /\ cap' = Grow(cap, Len(log) + 1)
  /\ last' = Len(log) + 1

\* merge an observation into the record of the same point (specified noise)
Merge1(i, v, t) ==
  LET r == log[i]
  IN /\ log' = [log EXCEPT ![i] = [r EXCEPT !.num = r.tau * r.num + t * v * r.den,
                                            !.den = r.den * (r.tau + t),
                                            !.tau = r.tau + t,
                                            !.n = r.n + 1]]
     /\ cap' = cap
     /\ last' = i

Ghost(p, v, t, counted) ==
  /\ obsT' = [obsT EXCEPT ![p] = @ + t]
  /\ obsTV' = [obsTV EXCEPT ![p] = @ + t * v]
  /\ obsN' = IF counted THEN [obsN EXCEPT ![p] = @ + 1] ELSE obsN

\* __call__(x) with record_duplicate_data = TRUE
CallRec(p, v, t) ==
  /\ Len(hist) < MaxOps
  /\ hist' = Append(hist, <<"call", p, v, t>>)
  /\ fc' = fc + 1 /\ cc' = cc
  /\ IF Specified /\ Idx(p) # {}
     THEN /\ Cardinality(Idx(p)) = 1
          /\ Merge1(CHOOSE i \in Idx(p) : TRUE, v, t)
          /\ Ghost(p, v, t, TRUE)
     ELSE /\ Append1(p, v, IF Specified THEN t ELSE 0)
          /\ IF Specified THEN Ghost(p, v, t, TRUE)
             ELSE /\ obsN' = [obsN EXCEPT ![p] = @ + 1]
                  /\ UNCHANGED <<obsT, obsTV>>

\* __call__(x, record_duplicate_data = FALSE): noise test / final sampling
CallNoRec(p, v, t) ==
  /\ Len(hist) < MaxOps
  /\ hist' = Append(hist, <<"norec", p, v, t>>)
  /\ fc' = fc + 1 /\ cc' = cc /\ cap' = cap
  /\ IF Idx(p) # {}
     THEN LET i == CHOOSE m \in Idx(p) : \A j \in Idx(p) : m >= j   \* last duplicate
          IN /\ log' = [log EXCEPT ![i].n = @ + 1]
             /\ last' = i
             /\ obsN' = [obsN EXCEPT ![p] = @ + 1]
     ELSE /\ log' = log /\ last' = 0 /\ obsN' = obsN
  /\ UNCHANGED <<obsT, obsTV>>

\* add(x, fval, fsd): a previously evaluated point; does not count as a call
Add(p, v, t) ==
  /\ Len(hist) < MaxOps
  /\ hist' = Append(hist, <<"add", p, v, t>>)
  /\ fc' = fc /\ cc' = cc + 1
  /\ IF Specified /\ Idx(p) # {}
     THEN /\ Cardinality(Idx(p)) = 1
          /\ Merge1(CHOOSE i \in Idx(p) : TRUE, v, t)
          /\ Ghost(p, v, t, TRUE)
     ELSE /\ Append1(p, v, IF Specified THEN t ELSE 0)
          /\ IF Specified THEN Ghost(p, v, t, TRUE)
             ELSE /\ obsN' = [obsN EXCEPT ![p] = @ + 1]
                  /\ UNCHANGED <<obsT, obsTV>>

Next ==
  \/ \E p \in Points, v \in Vals, t \in Precs :
        CallRec(p, v, t) \/ CallNoRec(p, v, t) \/ Add(p, v, t)
  \/ (Len(hist) = MaxOps /\ UNCHANGED vars)

Spec == Init /\ [][Next]_vars

-----------------------------------------------------------------------------
(* C12 *)
\* an operation changes at most the one record it names
OtherRecordsUntouched ==
  [][\A i \in DOMAIN log : (i # last' => (i \in DOMAIN log' /\ log'[i] = log[i]))]_vars
\* records are never removed or reordered
AppendOnly == [][Len(log') >= Len(log) /\ \A i \in DOMAIN log : log'[i].x = log[i].x]_vars
\* func_count counts calls, cache_count counts adds
CountsExact ==
  /\ fc = Cardinality({i \in DOMAIN hist : hist[i][1] \in {"call", "norec"}})
  /\ cc = Cardinality({i \in DOMAIN hist : hist[i][1] = "add"})
\* under specified noise a point has one record; it holds the precision-weighted
\* mean of the observations made there, with the combined precision
MergedIsWeightedMean ==
  Specified =>
    \A i \in DOMAIN log :
      LET r == log[i]
      IN /\ Cardinality(Idx(r.x)) = 1
         /\ r.tau = obsT[r.x]
         /\ r.num * obsT[r.x] = obsTV[r.x] * r.den
\* per-point observation counts are exact
RECURSIVE SumN(_)
SumN(S) == IF S = {} THEN 0
           ELSE LET i == CHOOSE j \in S : TRUE IN log[i].n + SumN(S \ {i})
CountsPerPoint == \A p \in Points : SumN(Idx(p)) = (IF Idx(p) = {} THEN 0 ELSE obsN[p])
\* without specified noise every recorded call has its own record with exactly its value
UnmergedExact ==
  ~Specified => \A i \in DOMAIN log : log[i].den = 1 /\ log[i].tau = 0
CapacityCovers == cap >= Len(log)
=============================================================================
