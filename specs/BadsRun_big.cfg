SPECIFICATION Spec
CONSTANTS
  D = 2
  Budget = 12
  MaxIter = 4
  KTolAbs = 3
  KCap = 0
  NTry = 3
  NFinal = 2
  NInitMax = 3
  Noisy = FALSE
  AutoDetect = TRUE
  SkipPollAfterSearch = TRUE
  CompletePoll = FALSE
  AccelMesh = TRUE
  AccelSteps = 1
  StallIters = 2
  SearchLocked = TRUE
  GridMult = 2
  GridNum = 10
  MeshExpand = 0
  MeshIncr = 1
  NVals = 3
  Faults = FALSE
INVARIANT BudgetRespected
INVARIANT IterBounded
INVARIANT CountHonest
INVARIANT MsgTruthfulInv
INVARIANT NonProgressBounded
INVARIANT PollAtMost2D
INVARIANT IncumbentIsMin
INVARIANT FinalSamplesTaken
INVARIANT CountOnlyValid
INVARIANT MeshLeCap
INVARIANT SearchMeshLeqPoll
INVARIANT TolMeshMsg
INVARIANT HistoryCount
INVARIANT ResultInHistory
INVARIANT TypeOK
PROPERTY Terminates
PROPERTY IncumbentMonotone
PROPERTY FinalSamplesLast
PROPERTY NoCallAfterFault
PROPERTY MeshOnlyInPoll
PROPERTY MeshStep
PROPERTY SearchOneEval
