SPECIFICATION Spec
CONSTANTS
  Mu = 3
  Lam = 3
  NGen = 2
  ZMax = 3
INVARIANT BestAlwaysKept
INVARIANT ReturnIsGlobalMin
