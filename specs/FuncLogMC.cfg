SPECIFICATION Spec
CONSTANTS
  Points <- MCPoints
  Vals <- MCVals
  Precs <- MCPrecs
  Specified = TRUE
  Cap0 = 2
  MaxOps = 3
INVARIANT CountsExact
INVARIANT MergedIsWeightedMean
INVARIANT CountsPerPoint
INVARIANT UnmergedExact
INVARIANT CapacityCovers
PROPERTY OtherRecordsUntouched
PROPERTY AppendOnly
