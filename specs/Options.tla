------------------------------- MODULE Options -------------------------------
(***************************************************************************)
(* Option handling of pybads: pybads/bads/options.py (Options,             *)
(* load_options_file, validate_option_names) as used by BADS.__init__, and *)
(* the option mutations made by BADS.optimize(), for several instances in  *)
(* one process (C20).                                                      *)
(*                                                                         *)
(* Abstract option names, one per kind of default:                         *)
(*   bPlain  basic file, constant default                                  *)
(*   bDim    basic file, default depends on the dimension D (500*D ...)    *)
(*   aPlain  advanced file, constant default (source of a dependent one)   *)
(*   aDim    advanced file, default depends on D                           *)
(*   aDep    advanced file, default derived from the CURRENT value of      *)
(*           aPlain through self.get() (tol_noise, hedge_beta)             *)
(* The process-wide state is the module global D written by exec() when an *)
(* option file is loaded (options.py l.107-110).                           *)
(***************************************************************************)
EXTENDS Integers, Sequences, FiniteSets, TLC

CONSTANTS Inst,      \* instances, e.g. 1..3
          DimOf,     \* function Inst -> dimension
          UserOf     \* function Inst -> set of names the user overrides

Names == {"bPlain", "bDim", "aPlain", "aDim", "aDep"}
Basic == {"bPlain", "bDim"}
Adv == {"aPlain", "aDim", "aDep"}

VARIABLES gD,     \* module global D of options.py
          opts,   \* opts[i][name]: value (a tuple) or <<"unset">>
          stage,  \* "new" | "constructed" | "run"
          hist    \* completed operations <<"C", i>> / <<"R", i>>

vars == <<gD, opts, stage, hist>>

UserVal(i, n) == <<"user", i, n>>
\* default of name n evaluated with global dimension d, in options map o
Default(n, d, o) ==
  CASE n = "bPlain" -> <<"const", n>>
    [] n = "bDim"   -> <<"dim", n, d>>
    [] n = "aPlain" -> <<"const", n>>
    [] n = "aDim"   -> <<"dim", n, d>>
    [] n = "aDep"   -> <<"dep", o["aPlain"]>>

Unset == <<"unset">>

Init ==
  /\ gD = 0
  /\ opts = [i \in Inst |-> [n \in Names |-> Unset]]
  /\ stage = [i \in Inst |-> "new"]
  /\ hist = <<>>

\* Options(basic_path, {D}, user_options): exec D into the globals, evaluate
\* the basic file, then user options overwrite and are marked protected
AfterBasic(i) ==
  LET d == DimOf[i]
      o0 == [n \in Names |-> IF n \in Basic THEN Default(n, d, opts[i]) ELSE Unset]
  IN [n \in Names |-> IF n \in UserOf[i] THEN UserVal(i, n) ELSE o0[n]]

\* load_options_file(advanced): exec D again; protected names are skipped;
\* entries are evaluated in file order, so aDep sees the current aPlain
AfterAdvanced(i, o1) ==
  LET d == DimOf[i]
      o2 == [o1 EXCEPT !["aPlain"] = IF "aPlain" \in UserOf[i] THEN @ ELSE Default("aPlain", d, o1)]
      o3 == [o2 EXCEPT !["aDim"] = IF "aDim" \in UserOf[i] THEN @ ELSE Default("aDim", d, o2)]
  IN [o3 EXCEPT !["aDep"] = IF "aDep" \in UserOf[i] THEN @ ELSE Default("aDep", d, o3)]

Construct(i) ==
  /\ stage[i] = "new"
  /\ gD' = DimOf[i]
  /\ opts' = [opts EXCEPT ![i] = AfterAdvanced(i, AfterBasic(i))]
  /\ stage' = [stage EXCEPT ![i] = "constructed"]
  /\ hist' = Append(hist, <<"C", i>>)

\* optimize() adjusts some of the instance's OWN options (noise handling)
Run(i) ==
  /\ stage[i] = "constructed"
  /\ opts' = [opts EXCEPT ![i]["aDim"] = <<"runmut", @>>]
  /\ stage' = [stage EXCEPT ![i] = "run"]
  /\ hist' = Append(hist, <<"R", i>>)
  /\ UNCHANGED gD

Next == (\E i \in Inst : Construct(i) \/ Run(i))
        \/ ((\A i \in Inst : stage[i] = "run") /\ UNCHANGED vars)
Spec == Init /\ [][Next]_vars

-----------------------------------------------------------------------------
(* C20 *)
Built(i) == stage[i] # "new"
\* a user-supplied option keeps exactly the supplied value
UserWins == \A i \in Inst : Built(i) =>
              \A n \in UserOf[i] : (n # "aDim" \/ stage[i] # "run") => opts[i][n] = UserVal(i, n)
\* dependent defaults are derived from the user's value
DependentSeesUser == \A i \in Inst : (Built(i) /\ "aPlain" \in UserOf[i] /\ "aDep" \notin UserOf[i])
                        => opts[i]["aDep"] = <<"dep", UserVal(i, "aPlain")>>
\* every other option has its default for the instance's OWN dimension
DefaultsForOwnD == \A i \in Inst : stage[i] = "constructed" =>
     \A n \in {"bDim", "aDim"} : n \notin UserOf[i] => opts[i][n] = <<"dim", n, DimOf[i]>>
AllSet == \A i \in Inst : Built(i) => \A n \in Names : opts[i][n] # Unset
\* an operation of one instance never changes the options of another
NoLeak == [][\A i \in Inst : (opts'[i] # opts[i]) =>
                 (hist' # hist /\ hist'[Len(hist')][2] = i)]_vars
=============================================================================
