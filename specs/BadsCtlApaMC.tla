---------------------------- MODULE BadsCtlApaMC ----------------------------
(* TLC instance of the Apalache controller skeleton, used to cross-check it
   against the controller projection of BadsRun on the same small constants *)
EXTENDS BadsCtlApa
MCKTol == -3
MCInit ==
  /\ phase = "loopbegin"
  /\ fc \in 1 .. Budget
  /\ k = 0 /\ ks = Locked(0)
  /\ iter = 0 /\ sc = NTry /\ ss = 0
  /\ pcount = 0 /\ premain = 0 /\ pgood = FALSE /\ doPoll = FALSE
  /\ first = TRUE /\ npolls = 0
  /\ nfEff = Reserve(fc) /\ budgetEff = Budget - Reserve(fc) /\ nfDone = 0
=============================================================================
