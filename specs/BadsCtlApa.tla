----------------------------- MODULE BadsCtlApa -----------------------------
(***************************************************************************)
(* Controller skeleton of BADS.optimize() over unbounded integers, for an  *)
(* INDUCTIVE-invariant check with Apalache (no bound on the budget, on      *)
(* max_iter, on search_n_try or on the mesh tolerance):                     *)
(*     IndInit => IndInv            (apalache-mc --init=IndInit --length=0) *)
(*     IndInv /\ Next => IndInv'    (apalache-mc --init=IndInv  --length=1) *)
(* The rules are those of BadsRules.tla, restated here with Apalache type   *)
(* annotations (Apalache does not support RECURSIVE operators / untyped     *)
(* records of the main modules).  Values, points and the initial phase are  *)
(* abstracted away: the loop starts from any state the initialisation can   *)
(* leave (fc <= Budget evaluations made, first iteration skips the search). *)
(***************************************************************************)
EXTENDS Integers

CONSTANTS
  \* @type: Int;
  D,
  \* @type: Int;
  Budget,
  \* @type: Int;
  MaxIter,
  \* @type: Int;
  KTol,
  \* @type: Int;
  NTry,
  \* @type: Bool;
  Skip,
  \* @type: Bool;
  Accel,
  \* @type: Int;
  AccelSteps,
  \* @type: Int;
  NFinal,
  \* @type: Bool;
  Noisy

VARIABLES
  \* @type: Str;
  phase,
  \* @type: Int;
  fc,
  \* @type: Int;
  k,
  \* @type: Int;
  ks,
  \* @type: Int;
  iter,
  \* @type: Int;
  sc,
  \* @type: Int;
  ss,
  \* @type: Int;
  pcount,
  \* @type: Int;
  premain,
  \* @type: Bool;
  pgood,
  \* @type: Bool;
  doPoll,
  \* @type: Bool;
  first,
  \* @type: Int;
  npolls,
  \* @type: Int;
  budgetEff,
  \* @type: Int;
  nfEff,
  \* @type: Int;
  nfDone

CInit ==
  /\ D \in Int /\ Budget \in Int /\ MaxIter \in Int /\ KTol \in Int /\ NTry \in Int /\ AccelSteps \in Int
  /\ NFinal \in Int
  /\ Skip \in BOOLEAN /\ Accel \in BOOLEAN /\ Noisy \in BOOLEAN
  /\ D >= 1 /\ Budget >= 1 /\ MaxIter >= 1 /\ NTry >= 0 /\ KTol <= 0 /\ AccelSteps >= 0 /\ NFinal >= 0

Min2(a, b) == IF a <= b THEN a ELSE b
Locked(kk) == Min2(0, 2 * kk - 10)

Phases == {"loopbegin", "search", "decide", "pollbegin", "polleval", "loopend", "final", "done"}

\* noisy targets reserve min(NFinal, Budget - fc) evaluations for the final re-sampling (BadsRules!ReserveFinal)
Reserve(f) == IF Noisy THEN Min2(NFinal, Budget - f) ELSE 0

Init ==
  /\ phase = "loopbegin"
  /\ fc \in Int /\ fc >= 1 /\ fc <= Budget
  /\ k = 0 /\ ks = Locked(0)
  /\ iter = 0 /\ sc = NTry /\ ss = 0
  /\ pcount = 0 /\ premain = 0 /\ pgood = FALSE /\ doPoll = FALSE
  /\ first = TRUE /\ npolls = 0
  /\ nfEff = Reserve(fc) /\ budgetEff = Budget - Reserve(fc) /\ nfDone = 0

LoopBegin ==
  /\ phase = "loopbegin"
  /\ ks' = Locked(k)
  /\ phase' = IF sc < NTry THEN "search" ELSE "decide"
  /\ UNCHANGED <<fc, k, iter, sc, ss, pcount, premain, pgood, doPoll, first, npolls, budgetEff, nfEff, nfDone>>

SearchEmpty ==
  /\ phase = "search" /\ sc' = sc + 1 /\ phase' = "decide"
  /\ UNCHANGED <<fc, k, ks, iter, ss, pcount, premain, pgood, doPoll, first, npolls, budgetEff, nfEff, nfDone>>

SearchEval ==
  /\ phase = "search"
  /\ sc' = sc + 1 /\ fc' = fc + 1
  /\ \E succ \in BOOLEAN : ss' = IF succ THEN ss + 1 ELSE ss
  /\ phase' = "decide"
  /\ UNCHANGED <<k, ks, iter, pcount, premain, pgood, doPoll, first, npolls, budgetEff, nfEff, nfDone>>

Decide ==
  /\ phase = "decide"
  /\ IF sc = 0 \/ sc = NTry
     THEN /\ sc' = 0 /\ ss' = 0
          /\ doPoll' = ~(ss > 0 /\ Skip)
     ELSE /\ doPoll' = FALSE /\ UNCHANGED <<sc, ss>>
  /\ phase' = IF doPoll' THEN "pollbegin" ELSE "loopend"
  /\ UNCHANGED <<fc, k, ks, iter, pcount, premain, pgood, first, npolls, budgetEff, nfEff, nfDone>>

PollBegin ==
  /\ phase = "pollbegin"
  /\ pcount' = 0 /\ pgood' = FALSE
  /\ \E n \in 0 .. 2 * D : premain' = IF fc < budgetEff THEN n ELSE 0
  /\ npolls' = npolls + 1
  /\ phase' = "polleval"
  /\ UNCHANGED <<fc, k, ks, iter, sc, ss, doPoll, first, budgetEff, nfEff, nfDone>>

PollEval ==
  /\ phase = "polleval"
  /\ fc < budgetEff /\ pcount < 2 * D /\ premain > 0
  /\ fc' = fc + 1 /\ pcount' = pcount + 1 /\ premain' = premain - 1
  /\ \E g \in BOOLEAN : pgood' = (pgood \/ g)
  /\ UNCHANGED <<phase, k, ks, iter, sc, ss, doPoll, first, npolls, budgetEff, nfEff, nfDone>>

PollEnd ==
  /\ phase = "polleval"
  /\ \E stalled \in BOOLEAN :
       k' = IF pgood THEN Min2(k + 1, 0)
            ELSE IF Accel /\ iter > AccelSteps /\ stalled THEN k - 2 ELSE k - 1
  /\ ks' = IF pgood THEN ks ELSE Min2(ks, 2 * k' - 10)
  /\ phase' = "loopend"
  /\ UNCHANGED <<fc, iter, sc, ss, pcount, premain, pgood, doPoll, first, npolls, budgetEff, nfEff, nfDone>>

LoopEnd ==
  /\ phase = "loopend"
  /\ \E stall \in BOOLEAN :
       LET fin == fc >= budgetEff \/ iter >= MaxIter - 1 \/ k < KTol \/ stall
       IN /\ phase' = IF fin THEN "final" ELSE "loopbegin"
          /\ iter' = IF ~fin /\ doPoll THEN iter + 1 ELSE iter
  /\ first' = FALSE
  /\ UNCHANGED <<fc, k, ks, sc, ss, pcount, premain, pgood, doPoll, npolls, budgetEff, nfEff, nfDone>>

\* after the loop: the reserved samples are taken at the returned point, then the run is over
FinalSample ==
  /\ phase = "final" /\ nfDone < nfEff
  /\ fc' = fc + 1 /\ nfDone' = nfDone + 1
  /\ UNCHANGED <<phase, k, ks, iter, sc, ss, pcount, premain, pgood, doPoll, first, npolls, budgetEff, nfEff>>

FinalDone ==
  /\ phase = "final" /\ nfDone = nfEff
  /\ phase' = "done"
  /\ UNCHANGED <<fc, k, ks, iter, sc, ss, pcount, premain, pgood, doPoll, first, npolls, budgetEff, nfEff, nfDone>>

Next == LoopBegin \/ SearchEmpty \/ SearchEval \/ Decide \/ PollBegin \/ PollEval \/ PollEnd \/ LoopEnd
        \/ FinalSample \/ FinalDone

-----------------------------------------------------------------------------
\* the properties (C03 budget / iteration bound, C13 mesh invariants)
BudgetRespected == fc <= Budget
\* C05: when the run is over every reserved final sample has been taken
FinalSamplesTaken == phase = "done" => nfDone = nfEff
IterBounded == iter <= MaxIter - 1 /\ npolls <= MaxIter
MeshLeOne == k <= 0
SearchMeshLeqPoll == ks <= k

\* inductive strengthening
IndInv ==
  /\ phase \in Phases
  /\ 1 <= fc /\ fc <= Budget
  \* the reserve: budgetEff + nfEff = Budget, the loop spends at most budgetEff, the final phase the rest
  /\ 0 <= nfEff /\ nfEff <= NFinal /\ budgetEff + nfEff = Budget /\ (~Noisy => nfEff = 0)
  /\ 0 <= nfDone /\ nfDone <= nfEff /\ (phase \notin {"final", "done"} => nfDone = 0)
  /\ fc <= budgetEff + nfDone
  /\ (phase = "done" => nfDone = nfEff)
  /\ k <= 0 /\ ks <= k /\ ks <= 2 * k - 10
  /\ 0 <= iter /\ iter <= MaxIter - 1
  /\ 0 <= sc /\ sc <= NTry /\ 0 <= ss /\ ss <= sc
  /\ 0 <= pcount /\ pcount <= 2 * D /\ 0 <= premain /\ premain <= 2 * D
  /\ 0 <= npolls
  \* the loop is (re-)entered only with evaluations left, except in the very first
  \* iteration, which skips the search
  /\ (phase \in {"loopbegin", "search"}) => (fc < budgetEff \/ (first /\ sc = NTry))
  /\ (phase = "search") => (sc < NTry /\ fc < budgetEff)
  \* polls so far: one per completed poll iteration, plus the one in progress
  /\ npolls = iter + (IF phase \in {"polleval"} \/ (phase = "loopend" /\ doPoll) \/ (phase \in {"final", "done"} /\ doPoll) THEN 1 ELSE 0)
  /\ (phase = "pollbegin") => doPoll
  /\ (phase = "polleval") => doPoll

\* assignment form required by Apalache for an initial predicate
TypeAssign ==
  /\ phase \in Phases /\ fc \in Int /\ k \in Int /\ ks \in Int /\ iter \in Int /\ sc \in Int /\ ss \in Int
  /\ pcount \in Int /\ premain \in Int /\ pgood \in BOOLEAN /\ doPoll \in BOOLEAN /\ first \in BOOLEAN
  /\ npolls \in Int /\ budgetEff \in Int /\ nfEff \in Int /\ nfDone \in Int
IndInvInit == TypeAssign /\ IndInv
Safety == BudgetRespected /\ IterBounded /\ MeshLeOne /\ SearchMeshLeqPoll /\ FinalSamplesTaken
=============================================================================
