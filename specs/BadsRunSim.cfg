SPECIFICATION SimSpec
CONSTANTS
  D = 1
  Budget = 16
  MaxIter = 6
  KTolAbs = 6
  KCap = 0
  NTry = 2
  NFinal = 0
  NInitMax = 2
  Noisy = FALSE
  AutoDetect = FALSE
  SkipPollAfterSearch = TRUE
  CompletePoll = FALSE
  AccelMesh = TRUE
  AccelSteps = 1
  StallIters = 3
  SearchLocked = TRUE
  GridMult = 2
  GridNum = 10
  MeshExpand = 0
  MeshIncr = 1
  Sloppy = TRUE
  NVals = 9
  Faults = FALSE
CHECK_DEADLOCK FALSE
