SPECIFICATION Spec
CONSTANTS
  Keys <- MCKeys
  BadKey = "nokey"
  Objs <- MCObjs
  MaxIter = 2
  MaxOps = 3
PROPERTY StoredIsCopy
PROPERTY RejectedIsNoop
PROPERTY OnlyNamedKey
