--------------------------- MODULE BadsRunTrace ---------------------------
(***************************************************************************)
(* Trace specification: validates recorded executions of the real pybads  *)
(* against the rules of BadsRules / BadsRun.                               *)
(*                                                                         *)
(* The trace (ndjson, one projected event per line, many runs per file) is *)
(* consumed event by event.  The specification is TOTAL: every event is    *)
(* consumed, the specification state is advanced by the spec's own rules   *)
(* wherever the rule is deterministic, and every clause an event violates  *)
(* is added to `errs` (with the index of the first offending event).  At   *)
(* RunEnd the verdict of the run is appended to `verdicts`; after the last *)
(* event all verdicts are written to OUT_FILE.  Clause names are prefixed  *)
(* with the id of the property they belong to.                             *)
(***************************************************************************)
EXTENDS BadsRules, TLC, TLCExt, Json, IOUtils

TraceLog == ndJsonDeserialize(IOEnv.TRACE_FILE)
NEv == Len(TraceLog)

VARIABLES l,        \* index of the next event
          s,        \* specification state of the current run (a record)
          errs,     \* set of [c |-> clause, l |-> event index]
          verdicts  \* sequence of [r, errs] for finished runs

tvars == <<l, s, errs, verdicts>>

Ev == TraceLog[l]
IsEv(name) == l <= NEv /\ TraceLog[l].e = name

Chk(cond, name) == IF cond THEN {} ELSE {name}
AddErrs(new) ==
  errs \cup {[c |-> x, l |-> l] : x \in {y \in new : ~\E e \in errs : e.c = y}}

Range(f) == {f[i] : i \in DOMAIN f}
SeqMin(sq, dflt) == IF sq = <<>> THEN dflt
                    ELSE CHOOSE m \in Range(sq) : \A x \in Range(sq) : m <= x
Neg(v) == [i \in DOMAIN v |-> 0 - v[i]]
Abs(x) == IF x < 0 THEN 0 - x ELSE x

EmptyCfg == [budget |-> 0, maxiter |-> 0, ktol |-> 0, ntry |-> 0, nfinal |-> 0,
             accel |-> FALSE, accelsteps |-> 0, completepoll |-> FALSE,
             skippoll |-> FALSE, locked |-> FALSE, gnum |-> 0, gmult |-> 0,
             kcap |-> 0, expand |-> 0, incr |-> 0, stalliters |-> 0, k0 |-> 0,
             pow2 |-> TRUE, funevalstart |-> 0, minrefit |-> 0, sloppy |-> TRUE,
             removeafter |-> 1, sfdefault |-> TRUE]

NoStep == [kind |-> "none", nev |-> 0, dirs |-> {}, rem |-> {}, kb |-> 0,
           hasdirs |-> FALSE]

S0 == [phase |-> "none", D |-> 1, noise |-> "det", hascons |-> FALSE,
       x0viol |-> FALSE, lbR |-> <<>>, ubR |-> <<>>, lbI |-> <<>>, ubI |-> <<>>,
       cfg |-> EmptyCfg,
       calls |-> <<>>,       \* successful target calls [pid, uid, yR, sdR, kind, rec]
       ncalls |-> 0,         \* target invocations (including a failing one)
       fc |-> 0, nlog |-> 0, uhl |-> 0,
       minY |-> 1000000000,  \* smallest value rank observed so far
       inc |-> [uid |-> -1, yR |-> -1],
       k |-> 0, ks |-> 0, kstate |-> 0, iter |-> 0, sc |-> 0, ss |-> 0, spree |-> 0,
       ntry |-> 0, stalliters |-> 0,
       budgetEff |-> 0, nfinalEff |-> 0, budgetApplies |-> TRUE, fcInit |-> 0,
       step |-> NoStep,
       searched |-> FALSE, polled |-> FALSE, decided |-> FALSE, evald |-> FALSE,
       histNow |-> FALSE, np |-> 0, npolls |-> 0,
       hist |-> <<>>, finished |-> FALSE, msg |-> "",
       faulted |-> FALSE, injected |-> "", finalSeen |-> FALSE, nfinalCalls |-> 0,
       looping |-> FALSE, ended |-> "", strays |-> 0, uhlInit |-> 0, lastRefitFc |-> -1000000,
       fit |-> [rfit |-> -2, rtry |-> -1, lenX |-> 0, failed |-> FALSE]]

Pids == {s.calls[i].pid : i \in DOMAIN s.calls}
Uids == {s.calls[i].uid : i \in DOMAIN s.calls}
Det  == s.uhl = 0           \* the run treats the target as deterministic
\* C04 is stated for the default incumbent-update policy (options['sloppy_improvement'] = True:
\* every positive improvement moves the incumbent); with the option off only sufficient
\* improvements move it, and "no evaluated point is better" is not claimed
DefPolicy == s.cfg.sloppy

TInit == l = 1 /\ s = S0 /\ errs = {} /\ verdicts = <<>>

Step(newS, newErrs) ==
  /\ s' = newS
  /\ errs' = AddErrs(newErrs)
  /\ l' = l + 1
  /\ UNCHANGED verdicts

-----------------------------------------------------------------------------
TRunBegin ==
  /\ IsEv("RunBegin")
  /\ s' = [S0 EXCEPT !.phase = "begun", !.D = Ev.D, !.noise = Ev.noise,
                     !.hascons = Ev.hascons, !.x0viol = Ev.x0viol,
                     !.lbR = Ev.lbR, !.ubR = Ev.ubR]
  /\ errs' = {}
  /\ l' = l + 1
  /\ UNCHANGED verdicts

(* BADS(...) returned or raised.  C02: an infeasible starting point (before *)
(* or after snapping) is rejected with ValueError before any target call.  *)
TConstruct ==
  /\ IsEv("Construct")
  /\ LET anyviol == s.x0viol \/ \E i \in DOMAIN Ev.consviol : Ev.consviol[i]
         ok == Ev.outcome = "ok"
         c  == Ev.cfg
     IN Step([s EXCEPT !.phase = IF ok THEN "constructed" ELSE "rejected",
                       !.cfg = c,
                       !.lbI = IF ok THEN Ev.lbI ELSE <<>>,
                       !.ubI = IF ok THEN Ev.ubI ELSE <<>>,
                       !.k = c.k0, !.kstate = c.k0,
                       !.ks = SearchSizeLocked(c.k0, c.gmult, c.gnum),
                       !.sc = c.ntry, !.ntry = c.ntry,
                       !.stalliters = c.stalliters,
                       !.budgetEff = c.budget,
                       !.ended = IF ok THEN "" ELSE "rejected"],
             Chk(anyviol => Ev.outcome = "ValueError", "C02.reject_infeasible_x0")
        \cup Chk(Ev.ncalls = 0, "C02.no_call_before_reject")
        \cup Chk(ok \/ Ev.outcome = "ValueError", "C09.constructor_error_type"))

TOptimizeBegin ==
  /\ IsEv("OptimizeBegin")
  /\ Step([s EXCEPT !.phase = "init"], {})

(* One call of the evaluation log wrapper = at most one target call.       *)
TEval ==
  /\ IsEv("Eval")
  /\ LET ok    == Ev.outcome = "ok"
         has   == Ev.ntc >= 1
         Dm    == 1 .. s.D
         inO   == has => \A i \in Dm : s.lbR[i] <= Ev.xR[i] /\ Ev.xR[i] <= s.ubR[i]
         inI   == \A i \in Dm : s.lbI[i] <= Ev.uR[i] /\ Ev.uR[i] <= s.ubI[i]
         isinit == Ev.kind \in {"x0", "noisetest", "init"}
         ispoll == Ev.kind = "poll"
         st    == s.step
         d     == Ev.d
         newcall == [pid |-> Ev.pid, uid |-> Ev.uid, yR |-> Ev.yR, sdR |-> Ev.sdR,
                     kind |-> Ev.kind, rec |-> Ev.rec]
         faultexp == IF Ev.fault = "exception" THEN "InjectedTargetError"
                     ELSE IF Ev.fault = "exception2" THEN "InjectedTargetError2"
                     ELSE IF Ev.fault = "exception3" THEN "InjectedStopIteration"
                     ELSE IF Ev.fault = "exception4" THEN "InjectedLinAlgError"
                     ELSE IF Ev.fault = "exception5" THEN "InjectedTypeError"
                     ELSE "ValueError"
         st2   == [st EXCEPT !.nev = st.nev + 1,
                             !.rem = IF ispoll THEN st.rem \ {d} ELSE st.rem]
     IN Step([s EXCEPT !.calls = IF ok /\ has THEN Append(s.calls, newcall) ELSE s.calls,
                       !.ncalls = s.ncalls + Ev.ntc,
                       !.fc = IF ok THEN s.fc + 1 ELSE s.fc,
                       !.nlog = Ev.nlogged,
                       !.minY = IF ok /\ has /\ Ev.yR < s.minY THEN Ev.yR ELSE s.minY,
                       !.faulted = s.faulted \/ ~ok,
                       !.injected = IF Ev.fault # "" THEN Ev.fault ELSE s.injected,
                       !.evald = TRUE,
                       !.step = st2,
                       !.finalSeen = s.finalSeen \/ Ev.kind = "final",
                       \* uncertainty level in force when the initial design is drawn
                       !.uhlInit = IF Ev.kind = "x0"
                                   THEN (IF s.noise = "specified" THEN 2 ELSE IF s.noise = "declared" THEN 1 ELSE 0)
                                   ELSE IF Ev.kind = "noisetest" /\ ok /\ s.calls # <<>> /\ Ev.yR # s.calls[1].yR
                                        THEN 1 ELSE s.uhlInit,
                       !.nfinalCalls = IF Ev.kind = "final" /\ ok THEN s.nfinalCalls + 1
                                       ELSE s.nfinalCalls],
             Chk(inO, "C01.eval_in_box_orig")
        \cup Chk(inI, "C01.eval_in_box_int")
        \cup Chk(has => ~Ev.viol,
                 IF Ev.kind = "x0" THEN "C02.reject_infeasible_snapped_x0"
                 ELSE "C02.no_infeasible_eval")
        \* the evaluated point is a row the candidate filter returned in this step (initial design, search,
        \* poll): nothing is altered or added between filtering and evaluation
        \* a candidate handed on for evaluation satisfies the non-box constraints (C17's statement; C02 states the
        \* same fact about target calls)
        \cup Chk((has /\ Ev.kind \in {"init", "search", "poll"}) => ~Ev.viol, "C17.evaluated_candidate_feasible")
        \cup Chk(Ev.infilt, "C17.evaluated_point_was_filtered")
        \* ... and each filtered candidate is handed to the target at most once per step (counted from the
        \* filter call on, so that the recorded finding "already evaluated points are kept" does not hide it)
        \cup Chk(~Ev.repstep, "C17.candidate_evaluated_once")
        \cup Chk(Ev.ntc = 1, "C03.count_honest")
        \cup Chk(Ev.fc = (IF ok THEN s.fc + 1 ELSE s.fc), "C03.count_honest")
        \cup Chk((s.budgetApplies /\ ~isinit /\ has) => Ev.n <= s.cfg.budget,
                 "C03.budget_respected")
        \cup Chk((~isinit /\ Ev.kind # "final" /\ has /\ s.budgetApplies)
                    => Ev.n <= s.budgetEff, "C03.budget_respected")
        \cup Chk(~s.faulted, "C10.no_call_after_fault")
        \cup Chk(Ev.fault # "" => Ev.outcome = faultexp,
                 IF Ev.fault \in {"exception", "exception2", "exception3", "exception4", "exception5"} THEN "C10.same_exception_type"
                 ELSE "C10.invalid_value_is_valueerror")
        \cup Chk(~ok => Ev.nlogged = s.nlog, "C10.nothing_invalid_logged")
        \cup Chk((ok /\ Ev.fault = "") => Ev.retok, "C12.returned_value_is_observed")
        \cup Chk((Det /\ s.noise = "det" /\ has /\ Ev.kind # "noisetest")
                     => Ev.pid \notin Pids, "C17.det_no_repeat_eval")
        \cup Chk(Ev.kind = "noisetest" =>
                     (s.calls # <<>> /\ Ev.pid = s.calls[1].pid /\ ~Ev.rec),
                 "C05.noise_test_at_x0")
        \cup Chk(ispoll => (Ev.dq /\ st.hasdirs /\ d \in st.dirs),
                 "C14.poll_point_on_direction")
        \cup Chk((ispoll /\ Ev.dq /\ st.hasdirs /\ d \in st.dirs) => d \in st.rem,
                 "C14.direction_once")
        \cup Chk(ispoll => st.nev < 2 * s.D, "C14.at_most_2D")
        \cup Chk(Ev.kind = "search" => st.nev = 0, "C18.at_most_one_eval")
        \cup Chk(Ev.kind \in {"search", "poll"} => st.kind = Ev.kind, "C09.eval_outside_step")
        \cup Chk(Ev.kind # "other", "C09.eval_outside_step")
        \cup Chk((s.finalSeen /\ ok) => Ev.kind = "final", "C05.final_samples_last")
        \cup Chk(Ev.kind = "final" => ~Ev.rec, "C05.final_samples_not_recorded"))

TStrayCall ==
  /\ IsEv("StrayCall")
  /\ Step([s EXCEPT !.ncalls = s.ncalls + 1, !.strays = s.strays + 1],
          {"C03.count_honest"})

TConsCall ==
  /\ IsEv("ConsCall")
  /\ Step(s, Chk(Ev.noob = 0, "C01.cons_args_in_box"))

(* candidate filter (contraints_check) -- C17 postconditions                *)
TFilter ==
  /\ IsEv("Filter")
  /\ Step(s, Chk(Ev.site = "init" =>
                    (InitRequested(s.uhlInit > 0, s.cfg.funevalstart, s.cfg.budget) >= 1 =>
                       Ev.nin = SobolDrawn(InitRequested(s.uhlInit > 0, s.cfg.funevalstart, s.cfg.budget), s.D)),
                 "EXT.init_design_size")
        \cup Chk(Ev.noob = 0, "C17.out_in_box")
        \cup Chk(Ev.ndup = 0, "C17.out_distinct")
        \cup Chk(Ev.nalready = 0, "C17.out_not_already_evaluated")
        (* the filter is handed the whole evaluation log, not a prefix of it *)
        \cup Chk(Ev.whole, "C17.filter_sees_whole_log")
        \cup Chk(Ev.ninfeas = 0, "C17.out_feasible")
        \cup Chk(Ev.nalien = 0, "C17.out_from_input"))

(* _init_mesh_ returned: incumbent := argmin of the initial design; noise   *)
(* detection.                                                              *)
TInitDone ==
  /\ IsEv("InitDone")
  /\ LET recY == {s.calls[i].yR : i \in {j \in DOMAIN s.calls : s.calls[j].rec}}
         amin == IF recY = {} THEN -1 ELSE CHOOSE m \in recY : \A y \in recY : m <= y
     IN Step([s EXCEPT !.uhl = Ev.uhl, !.fcInit = Ev.fc,
                       !.inc = [uid |-> Ev.incuid, yR |-> Ev.incyR],
                       !.budgetApplies = (Ev.fc <= s.cfg.budget)],
             Chk(Ev.fc = s.fc, "C03.count_honest")
        \cup Chk((Ev.uhl = 0 /\ s.noise = "det") => Ev.incyR = amin, "C04.incumbent_is_min")
        \cup Chk(Ev.incuid \in Uids, "C19.hist_x_evaluated")
        \cup Chk((s.noise \in {"det", "auto"} /\ Ev.tested) => ((Ev.uhl >= 1) = Ev.noisediff),
                 "C05.noise_detected_iff_differs")
        \cup Chk((s.noise \in {"det", "auto"}) => Ev.tested, "C05.noise_test_performed")
        \cup Chk(s.noise = "declared" => Ev.uhl = 1, "C05.declared_mode")
        \cup Chk(s.noise = "specified" => Ev.uhl = 2, "C05.declared_mode"))

(* _init_optimization_ returned: final-sample reserve (l.1071-1080)         *)
TReserve ==
  /\ IsEv("Reserve")
  /\ LET r == ReserveFinal(s.uhl > 0, s.cfg.budget, s.fc, s.cfg.nfinal)
     IN Step([s EXCEPT !.budgetEff = Ev.budgeteff, !.nfinalEff = Ev.nfinaleff,
                       !.ntry = Ev.ntry, !.stalliters = Ev.stalliters,
                       !.k = Ev.k, !.kstate = Ev.k, !.sc = Ev.sc,
                       \* search mesh exponent the first loop iteration will use (l.1196-1202)
                       !.ks = IF s.cfg.locked
                              THEN SearchSizeLocked(Ev.k, s.cfg.gmult, s.cfg.gnum) ELSE Ev.ks,
                       !.looping = TRUE, !.phase = "loop"],
             Chk(s.budgetApplies => (Ev.budgeteff = r.budgetEff /\ Ev.nfinaleff = r.nfinalEff),
                 "C03.final_reserve")
        \cup Chk(Ev.sc = Ev.ntry, "C03.controller_follows_spec")
        \cup Chk(Ev.k = s.cfg.k0, "C13.unchanged_outside_poll"))

(* ---- search step ------------------------------------------------------ *)
TSearchBegin ==
  /\ IsEv("SearchBegin")
  /\ Step([s EXCEPT !.step = [NoStep EXCEPT !.kind = "search"], !.searched = TRUE],
          Chk(DoSearch(s.sc, s.ntry, s.nlog, s.D), "C03.controller_follows_spec")
     \cup Chk(Ev.sc = s.sc /\ Ev.ss = s.ss, "C03.controller_follows_spec")
     \cup Chk(Ev.k = s.k, "C13.unchanged_outside_poll")
     \cup Chk(Ev.ks = s.ks, "C13.search_mesh_rule")
     \cup Chk(Ev.ks <= Ev.k, "C13.search_mesh_le_poll_mesh"))

TSearchEnd ==
  /\ IsEv("SearchEnd")
  /\ LET nev == s.step.nev
         succ == Ev.impsuff /\ nev >= 1
         moved == ((Ev.imppos /\ s.cfg.sloppy) \/ Ev.impsuff) /\ nev >= 1
         expInc == IF moved THEN [uid |-> Ev.evuid, yR |-> Ev.evyR] ELSE s.inc
     IN Step([s EXCEPT !.sc = s.sc + 1,
                       !.ss = IF succ THEN s.ss + 1 ELSE s.ss,
                       !.inc = [uid |-> Ev.incuid, yR |-> Ev.incyR],
                       !.step = NoStep],
             Chk(Ev.sc = s.sc + 1, "C03.controller_follows_spec")
        \cup Chk(Ev.ss = (IF succ THEN s.ss + 1 ELSE s.ss), "C03.controller_follows_spec")
        \cup Chk(Ev.k = s.k, "C13.unchanged_outside_poll")
        \cup Chk(nev <= 1, "C18.at_most_one_eval")
        \cup Chk(Ev.nev = nev, "C18.at_most_one_eval")
        \cup Chk(Det => (Ev.incuid = expInc.uid /\ Ev.incyR = expInc.yR),
                 "C04.incumbent_update_rule")
        \cup Chk(Det => Ev.fnewobs, "C04.compares_observation")
        \cup Chk((Det /\ s.noise = "det" /\ DefPolicy) => Ev.incyR = s.minY, "C04.incumbent_is_min")
        \cup Chk(Ev.incuid \in Uids, "C19.hist_x_evaluated")
        \* beyond the listed properties: search scale factor dynamics
        \* (stated for the default factors sqrt(2), 2, sqrt(1/2) of options['search_scale_*'])
        \cup Chk(s.cfg.sfdefault =>
                   (Ev.sf2 # 9999 /\ Ev.sf2b # 9999 /\
                    Ev.sf2 = NextSearchFactor(Ev.sf2b,
                               IF succ THEN "success" ELSE IF moved THEN "incremental" ELSE "failure",
                               s.sc + 1, s.ntry)),
                 "EXT.search_factor_rule"))

(* ---- search/poll alternation is applied when the poll begins, or at the *)
(* loop end when no poll was run                                           *)
DecideNow ==
  Decide(s.sc, s.ss, s.spree, s.k, s.ntry, s.cfg.skippoll, s.cfg.expand,
         s.cfg.incr, s.cfg.kcap)

TPollBegin ==
  /\ IsEv("PollBegin")
  /\ LET d == DecideNow
         np1 == s.npolls + 1
     IN Step([s EXCEPT !.sc = d.sc, !.ss = d.ss, !.spree = d.spree, !.k = d.k,
                       !.decided = TRUE, !.polled = TRUE, !.npolls = np1,
                       !.step = [NoStep EXCEPT !.kind = "poll", !.kb = Ev.k]],
             Chk(d.doPoll, "C03.controller_follows_spec")
        \cup Chk(s.searched \/ ~DoSearch(s.sc, s.ntry, s.nlog, s.D),
                 "C03.controller_follows_spec")
        \cup Chk(Ev.k = d.k, "C13.unchanged_outside_poll")
        \cup Chk(Ev.iter = s.iter, "C03.controller_follows_spec")
        \cup Chk(np1 <= s.cfg.maxiter, "C03.iter_bounded")
        \cup Chk(Ev.ks = s.ks, "C13.search_mesh_rule")
        \cup Chk(Ev.ks <= Ev.k, "C13.search_mesh_le_poll_mesh"))

(* direction generator returned (C14)                                       *)
TPollDirs ==
  /\ IsEv("PollDirs")
  /\ LET Dm == 1 .. s.D
         rows == Ev.dirs
         symm == Ev.nrows = 2 * s.D /\ Len(rows) = 2 * s.D
                 /\ \A i \in Dm : rows[s.D + i] = Neg(rows[i])
         bounded == \A i \in DOMAIN rows : \A j \in DOMAIN rows[i] :
                       Abs(rows[i][j]) <= Ev.nmax
         sperm == Ev.nmax = 1 =>
                    /\ \A i \in DOMAIN rows :
                          Cardinality({j \in DOMAIN rows[i] : rows[i][j] # 0}) = 1
                    /\ Cardinality(Range(rows)) = 2 * s.D
     IN Step([s EXCEPT !.step = [s.step EXCEPT !.dirs = Range(rows),
                                               !.rem = Range(rows),
                                               !.hasdirs = TRUE]],
             Chk(Ev.quant, "C14.dirs_integer")
        \cup Chk(symm, "C14.dirs_symmetric")
        \cup Chk(Ev.det # 0, "C14.dirs_nonsingular")
        \cup Chk(bounded, "C14.dirs_bounded")
        \cup Chk(sperm, "C14.dirs_signed_permutation"))

TPollEnd ==
  /\ IsEv("PollEnd")
  /\ LET kb == s.step.kb
         c == s.cfg
         accelOn == c.accel /\ s.iter > c.accelsteps
         expK == MeshAfterPoll(kb, Ev.good, c.accel, c.accelsteps, s.iter,
                               Ev.stalled, c.kcap)
         expKs == SearchSizeAfterPoll(s.ks, Ev.k, Ev.good, c.gmult, c.gnum)
         expInc == IF Ev.moved THEN [uid |-> Ev.bestuid, yR |-> Ev.bestyR] ELSE s.inc
     IN Step([s EXCEPT !.k = Ev.k, !.kstate = Ev.k, !.ks = Ev.ks,
                       !.inc = [uid |-> Ev.incuid, yR |-> Ev.incyR],
                       !.step = NoStep],
             Chk(Ev.good => Ev.k = Min2(kb + 1, c.kcap), "C13.doubled_after_success")
        \cup Chk(~Ev.good => Ev.k \in {kb - 1, kb - 2}, "C13.halved_after_failure")
        \cup Chk(~Ev.good => ((Ev.k = kb - 2) = (accelOn /\ Ev.stalled)),
                 "C13.quartered_iff_accel_and_stalled")
        \cup Chk(Ev.k = expK, "C13.mesh_rule")
        \cup Chk(Ev.k <= c.kcap, "C13.capped")
        \cup Chk(Ev.hasstall = (~Ev.good /\ accelOn), "C13.stall_test_when_due")
        \cup Chk(Ev.ks = expKs, "C13.search_mesh_rule")
        \cup Chk(Ev.ks <= Ev.k, "C13.search_mesh_le_poll_mesh")
        \cup Chk(Ev.npolled <= 2 * s.D /\ Ev.npolled = s.step.nev, "C14.at_most_2D")
        \cup Chk(s.budgetApplies => Ev.fc <= Max2(s.budgetEff, s.fcInit), "C03.budget_respected")
        \cup Chk(Ev.iter = s.iter, "C03.controller_follows_spec")
        \* (after a target fault the run should have ended: the pairing of poll evaluations with improvement
        \*  evaluations is then meaningless, and the C10 clauses report the continued run)
        \cup Chk(Ev.paired \/ s.faulted, "MACH.poll_pairing")
        \cup Chk(Ev.ongp, "C13.success_judged_on_gp_estimate")
        \cup Chk(Ev.ovf = NextOverflows(Ev.ovfb, Ev.good, kb, c.kcap), "EXT.mesh_overflow_count")
        \cup Chk(Det => (Ev.incuid = expInc.uid /\ Ev.incyR = expInc.yR),
                 "C04.incumbent_update_rule")
        \cup Chk((Det /\ s.noise = "det" /\ DefPolicy) => Ev.incyR = s.minY, "C04.incumbent_is_min")
        \cup Chk(Ev.incuid \in Uids, "C19.hist_x_evaluated"))

(* ---- history record of one iteration (l.1340-1370) --------------------- *)
THistRecord ==
  /\ IsEv("HistRecord")
  /\ LET atx == {s.calls[i].yR : i \in {j \in DOMAIN s.calls : s.calls[j].pid = Ev.pid}}
         lo == IF atx = {} THEN 0 ELSE CHOOSE m \in atx : \A y \in atx : m <= y
         hi == IF atx = {} THEN -1 ELSE CHOOSE m \in atx : \A y \in atx : m >= y
         last == IF s.hist = <<>> THEN [fc |-> 0, yR |-> 1000000000, iter |-> -1]
                 ELSE s.hist[Len(s.hist)]
         h == [iter |-> Ev.iter, pid |-> Ev.pid, uid |-> Ev.uid, yR |-> Ev.yR,
               fc |-> Ev.fc, kmesh |-> Ev.kmesh]
     IN Step([s EXCEPT !.hist = Append(s.hist, h), !.histNow = TRUE],
             Chk(Ev.pid >= 0 /\ Ev.pid \in Pids, "C19.hist_x_evaluated")
        \cup Chk(IF s.uhl = 2 THEN lo <= Ev.yR /\ Ev.yR <= hi ELSE Ev.yR \in atx,
                 "C19.hist_yval_observed_at_x")
        \cup Chk(Ev.fc >= last.fc, "C19.hist_fc_monotone")
        \cup Chk(Ev.fc = s.fc, "C19.hist_fc_is_count")
        \cup Chk(Ev.iter = s.iter, "C19.hist_iteration_index")
        \cup Chk(Ev.iter >= last.iter, "C19.hist_iteration_index")
        \cup Chk(Det => Ev.yR <= last.yR, "C04.incumbent_monotone")
        \cup Chk(Det => (Ev.fvaleqyval /\ Ev.fsdzero), "C04.hist_fval_is_yval")
        \cup Chk(Det => (Ev.uid = s.inc.uid /\ Ev.yR = s.inc.yR), "C19.hist_is_incumbent")
        \cup Chk(s.cfg.pow2 => (Ev.kmesh # 999 /\ Ev.kmesh <= s.cfg.kcap), "C13.pow2_le_one")
        \cup Chk(s.cfg.pow2 => Ev.kmesh = s.k, "C13.history_mesh_is_current")
        \cup Chk(s.cfg.pow2 => (Ev.ksmesh # 999 /\ Ev.ksmesh <= Ev.kmesh),
                 "C13.search_mesh_le_poll_mesh"))

(* ---- end of a loop iteration: the guarded hook ------------------------- *)
TLoopEnd ==
  /\ IsEv("LoopEnd")
  /\ LET d == IF s.decided
              THEN [sc |-> s.sc, ss |-> s.ss, spree |-> s.spree, doPoll |-> TRUE, k |-> s.k]
              ELSE DecideNow
         c == s.cfg
         kst == IF s.polled THEN s.kstate ELSE s.kstate
         tc == TermConds(Ev.fc, s.budgetEff, s.iter, c.maxiter, kst, c.ktol, Ev.stall)
         fin == Finished(tc)
         progressed == Ev.finished \/ s.polled \/ s.evald
         np1 == IF progressed THEN 0 ELSE s.np + 1
         expIter == NextIter(s.iter, s.polled, Ev.finished)
     IN Step([s EXCEPT !.sc = d.sc, !.ss = d.ss, !.spree = d.spree, !.k = Ev.k,
                       !.kstate = Ev.k,
                       \* top of the next loop iteration (l.1196-1202)
                       !.ks = IF c.locked THEN SearchSizeLocked(Ev.k, c.gmult, c.gnum) ELSE Ev.ks,
                       !.iter = Ev.iter, !.finished = Ev.finished, !.msg = Ev.msg,
                       !.np = np1, !.searched = FALSE, !.polled = FALSE,
                       !.decided = FALSE, !.evald = FALSE, !.histNow = FALSE,
                       !.inc = [uid |-> Ev.incuid, yR |-> Ev.incyR],
                       !.looping = ~Ev.finished,
                       !.phase = IF Ev.finished THEN "final" ELSE "loop"],
             Chk(s.decided \/ ~d.doPoll, "C03.controller_follows_spec")
        \cup Chk(s.searched \/ s.polled \/ ~DoSearch(s.sc, s.ntry, s.nlog, s.D),
                 "C03.controller_follows_spec")
        \cup Chk(Ev.dopoll = s.polled /\ Ev.dosearch = s.searched, "C03.controller_follows_spec")
        \cup Chk(Ev.sc = d.sc /\ Ev.ss = d.ss /\ Ev.spree = d.spree,
                 "C03.controller_follows_spec")
        \cup Chk(Ev.k = (IF s.decided THEN s.k ELSE d.k), "C13.unchanged_outside_poll")
        \cup Chk(Ev.ks = s.ks, "C13.search_mesh_rule")
        \cup Chk(Ev.fc = s.fc, "C03.count_honest")
        \cup Chk(Ev.budgeteff = s.budgetEff, "C03.final_reserve")
        \cup Chk(Ev.finished = fin, "C03.controller_follows_spec")
        \cup Chk(Ev.iter = expIter, "C03.controller_follows_spec")
        \cup Chk(Ev.iter <= c.maxiter - 1 \/ c.maxiter < 1, "C03.iter_bounded")
        \cup Chk(s.budgetApplies => Ev.fc <= Max2(s.budgetEff, s.fcInit), "C03.budget_respected")
        \cup Chk(~Ev.finished => Ev.msg = "", "C03.msg_only_at_exit")
        \cup Chk(Ev.finished => Ev.msg # "", "C03.msg_nonempty")
        \cup Chk(Ev.msg = "maxfun" => tc.maxfun, "C03.msg_maxfun_true")
        \cup Chk(Ev.msg = "maxiter" => tc.maxiter, "C03.msg_maxiter_true")
        \cup Chk(Ev.msg = "tolmesh" => tc.tolmesh, "C13.tolmesh_msg_implies_below")
        \cup Chk(Ev.msg = "tolfun" => (tc.tolfun /\ s.iter > s.stalliters - 1),
                 "C03.msg_tolfun_true")
        \cup Chk(Ev.msg # "other", "C03.msg_known")
        \cup Chk(s.histNow = RecordsHistory(s.polled, Ev.finished), "C19.hist_recorded_iff")
        \cup Chk(np1 <= NonProgressBound(s.ntry), "C03.non_progress_bounded")
        \cup Chk((Det /\ s.noise = "det" /\ DefPolicy) => Ev.incyR = s.minY, "C04.incumbent_is_min")
        \cup Chk(Det => Ev.uequbest, "C19.incumbent_tuple_consistent")
        \* noisy runs: after the history re-evaluation the incumbent tuple is that of a
        \* recorded iterate (the current one, or the earlier iterate it was swapped for)
        \cup Chk((s.uhl > 0 /\ s.polled /\ s.iter > 0) =>
                    \E i \in DOMAIN s.hist : s.hist[i].uid = Ev.incuid /\ s.hist[i].yR = Ev.incyR,
                 "C19.swap_to_recorded_iterate")
        \* the incumbent's observed value was observed AT the incumbent (every mode;
        \* under specified noise merged values lie within the range observed there)
        \cup Chk(LET at == {s.calls[i].yR : i \in {j \in DOMAIN s.calls : s.calls[j].uid = Ev.incuid}}
                 IN IF at = {} THEN FALSE
                    ELSE IF s.uhl = 2
                         THEN (CHOOSE m \in at : \A y \in at : m <= y) <= Ev.incyR
                              /\ Ev.incyR <= (CHOOSE m \in at : \A y \in at : m >= y)
                         ELSE Ev.incyR \in at,
                 "C19.incumbent_tuple_consistent"))

TNonProgress ==
  /\ IsEv("NonProgress")
  /\ Step(s, {"C03.non_progress_bounded"})

(* ---- GP seams (C15, C16, C18) ------------------------------------------ *)
TGPTrainSet ==
  /\ IsEv("GPTrainSet")
  /\ Step([s EXCEPT !.lastRefitFc = IF Ev.refit THEN s.fc ELSE s.lastRefitFc],
             Chk(Ev.refit => RefitSpacingOk(s.fc, s.lastRefitFc, 2 * s.D) \/ s.cfg.minrefit # 2 * s.D,
                 "EXT.refit_spacing")
        \cup Chk(Ev.nunlogged = 0 /\ Ev.nvalmis = 0, "C15.train_is_logged")
        \cup Chk(Ev.s2ok /\ Ev.s2lenok, "C15.s2_is_variance")
        \cup Chk(Ev.allused, "C15.init_uses_all_logged")
        \cup Chk(Ev.trainisnbr, "C15.train_set_is_neighbour_set")
        \* the neighbourhood is centred on the current incumbent (poll, search); the noisy search step also
        \* fits a tentative GP around the point it has just evaluated
        \cup Chk((Ev.site = "local:poll" => Ev.centre = "inc")
                 /\ (Ev.site = "local:search" => Ev.centre \in {"inc", "lasteval"}),
                 "C15.train_centre_is_incumbent"))

TNeighbors ==
  /\ IsEv("Neighbors")
  /\ Step(s, Chk(Ev.nunmatched = 0 /\ Ev.ndup = 0, "C15.train_is_logged")
        \cup Chk(Ev.sortedok, "C15.train_sorted_by_distance")
        \cup Chk(Ev.nnearer = 0, "C15.train_downward_closed")
        \cup Chk(Ev.ntrain = Ev.want, "C15.train_size_rule"))

TGPAdd ==
  /\ IsEv("GPAdd")
  /\ Step(s, Chk(Ev.grew /\ Ev.lastisnew /\ Ev.isnewest, "C15.add_is_newest")
        \cup Chk(Ev.logged /\ ~Ev.valmis, "C15.train_is_logged")
        \cup Chk(Ev.s2ok, "C15.s2_is_variance"))

TAcq ==
  /\ IsEv("Acq")
  /\ Step(s, Chk(Ev.defbeta => Ev.lcbok, "C15.lcb_formula")
        \* the values the evolution strategies rank candidates by are that lower confidence bound (default or
        \* user-supplied annealing schedule, recomputed by the observer from GP.predict)
        \cup Chk((Ev.site = "es" /\ Ev.defbeta) => Ev.lcbok, "C18.acquisition_is_lcb")
        \cup Chk(Ev.fcarg = Ev.fctrue /\ Ev.fctrue = s.fc, "C15.beta_uses_fc_plus_one"))

TESReturn ==
  /\ IsEv("ESReturn")
  /\ Step(s, Chk(Ev.outcome = "ok", "C09.no_crash_in_search")
        \cup Chk(Ev.retismin /\ Ev.retingen, "C18.search_picks_argmin")
        \cup Chk(Ev.noutside = 0, "C18.candidates_in_mesh_box"))

THedgeCall ==
  /\ IsEv("HedgeCall")
  /\ Step(s, Chk(Ev.sumok /\ Ev.finite, "C18.prob_sums_to_one")
        \cup Chk(Ev.minok, "C18.prob_at_least_gamma")
        \cup Chk(Ev.chosen >= 0 /\ Ev.chosen < Ev.nfuns, "C18.chosen_in_range"))

(* A fit attempt.  Inside _robust_gp_fit_ (rfit >= 0) the attempts of one call are numbered   *)
(* rtry = 0, 1, ...: a retry happens only after a linear-algebra failure, and the training   *)
(* set it receives is the previous one minus the rows GPTrain!Drops allows (never all of it). *)
TFitAttempt ==
  /\ IsEv("FitAttempt")
  /\ LET p == s.fit
         retry == Ev.rfit >= 0 /\ Ev.rfit = p.rfit /\ Ev.rtry >= 1
         maxdrop == 1 + (p.lenX + 19) \div 20
         dropped == p.lenX - Ev.lenX
         dropOK == IF p.rtry <= s.cfg.removeafter - 1 THEN dropped = 0   \* options['remove_points_after_tries']
                   ELSE IF p.lenX >= 2 THEN dropped >= 1 /\ dropped <= maxdrop /\ Ev.lenX >= 1
                   ELSE dropped = 0
     IN Step([s EXCEPT !.fit = [rfit |-> Ev.rfit, rtry |-> Ev.rtry, lenX |-> Ev.lenX,
                                failed |-> Ev.outcome = "LinAlgError"]],
             Chk(Ev.lenX = Ev.lenY /\ (Ev.lenS2 = -1 \/ Ev.lenS2 = Ev.lenX),
                 "C16.fit_args_consistent")
        \cup Chk(Ev.lenX >= 1, "C16.fit_set_nonempty")
        \cup Chk(retry => (p.failed /\ Ev.rtry = p.rtry + 1 /\ Ev.rtry <= 9), "EXT.fit_retry_rule")
        \cup Chk(retry => dropOK, "EXT.fit_drop_rule")
        \cup Chk((Ev.rfit >= 0 /\ ~retry) => Ev.rtry = 0, "EXT.fit_retry_rule"))

TObserverError ==
  /\ IsEv("ObserverError")
  /\ Step(s, {"MACH.observer_error"})

(* ---- optimize() returned ------------------------------------------------ *)
TResult ==
  /\ IsEv("Result")
  /\ LET n == Len(s.calls)
         nf == s.nfinalCalls
         noisy == s.uhl > 0
         nonfinalPids == {s.calls[i].pid : i \in {j \in DOMAIN s.calls : s.calls[j].kind # "final"}}
         tail == IF nf <= n THEN [i \in 1 .. nf |-> s.calls[n - nf + i]] ELSE <<>>
         tailAtX == \A i \in DOMAIN tail : tail[i].pid = Ev.pid /\ tail[i].kind = "final"
         expNf == IF noisy THEN s.nfinalEff ELSE 0
         atx == {s.calls[i].yR : i \in {j \in DOMAIN s.calls :
                     s.calls[j].pid = Ev.pid /\ s.calls[j].kind # "final"}}
         sdatx == {s.calls[i].sdR : i \in {j \in DOMAIN s.calls :
                     s.calls[j].pid = Ev.pid /\ s.calls[j].kind # "final"}}
         yvOK == IF expNf = 0 THEN Ev.nvec = 0
                 ELSE IF expNf = 1
                      THEN Ev.nvec = 2 /\ nf = 1 /\ Ev.yvR[1] = tail[1].yR
                      ELSE Ev.nvec = expNf /\ nf = expNf
                           /\ \A i \in 1 .. expNf : Ev.yvR[i] = tail[i].yR
         ysdOK == IF s.uhl # 2 THEN ~Ev.hasysd
                  ELSE IF expNf = 0 THEN ~Ev.hasysd
                  ELSE IF expNf = 1
                       THEN Len(Ev.ysR) = 2 /\ nf = 1 /\ Ev.ysR[1] = tail[1].sdR
                       ELSE Len(Ev.ysR) = expNf /\ nf = expNf
                            /\ \A i \in 1 .. expNf : Ev.ysR[i] = tail[i].sdR
         lasth == IF s.hist = <<>> THEN [pid |-> -2, yR |-> -2] ELSE s.hist[Len(s.hist)]
         first == IF n >= 1 THEN s.calls[1].yR ELSE 1000000000
         nEarlierAtX == Cardinality({j \in DOMAIN s.calls : s.calls[j].pid = Ev.pid /\ s.calls[j].kind # "final"})
     IN Step([s EXCEPT !.phase = "done", !.ended = "result"],
             Chk(Ev.inbox /\ \A i \in 1 .. s.D : s.lbR[i] <= Ev.xR[i] /\ Ev.xR[i] <= s.ubR[i],
                 "C01.result_in_box")
        \cup Chk(~Ev.viol, "C02.result_feasible")
        \cup Chk(Ev.fc = s.fc /\ Ev.fc = n /\ Ev.ncalls = n /\ Ev.flfc = n /\ s.strays = 0,
                 "C03.count_honest")
        \cup Chk(s.budgetApplies => Ev.ncalls <= s.cfg.budget, "C03.budget_respected")
        \* outfcn: the user's output function stopped the run before the first loop iteration
        \cup Chk(s.finished \/ (Ev.msg = "outfcn" /\ s.npolls = 0), "C03.terminated")
        \cup Chk((Ev.msg = s.msg \/ Ev.msg = "outfcn") /\ Ev.msg # "", "C03.msg_nonempty")
        \cup Chk(Ev.iterations = s.iter \/ Ev.msg = "outfcn", "C19.result_fields_agree")
        \cup Chk(Ev.iterations <= s.cfg.maxiter - 1 \/ s.cfg.maxiter < 1, "C03.iter_bounded")
        \cup Chk(s.cfg.pow2 => (Ev.kmesh = s.k /\ Ev.kfinal = s.k), "C19.result_fields_agree")
        \* the mesh size reported in the result is the one in force when the run ended (C13: changed only by polls)
        \cup Chk(s.cfg.pow2 => Ev.kmesh = s.k, "C13.result_mesh_is_current")
        \cup Chk(Ev.x0ok /\ Ev.seedok /\ Ev.ptypeok, "C19.result_fields_agree")
        \cup Chk(Ev.ttype = (IF s.uhl = 0 THEN "deterministic"
                              ELSE IF s.uhl = 2 THEN "stochastic (specified noise)" ELSE "stochastic"),
                 "C19.result_fields_agree")
        \cup Chk(Ev.keysok /\ Ev.attrok, "C19.result_keys")
        \cup Chk(Ev.msg = "outfcn" \/ \E i \in DOMAIN s.hist : s.hist[i].pid = Ev.pid, "C19.result_x_in_history")
        \cup Chk((~noisy /\ Ev.msg # "outfcn") => (lasth.pid = Ev.pid /\ lasth.yR = Ev.fvalR),
                 "C19.result_is_last_iterate_det")
        \* deterministic (C04)
        \cup Chk(~noisy => Ev.pid \in Pids, "C04.result_is_evaluated")
        \cup Chk(~noisy => Ev.fvalobs, "C04.fval_is_observed")
        \cup Chk((~noisy /\ s.noise = "det" /\ DefPolicy) => Ev.fvalR = s.minY, "C04.incumbent_is_min")
        \cup Chk(~noisy => Ev.fsdzero, "C04.fsd_zero")
        \cup Chk(~noisy => Ev.ttype = "deterministic", "C04.target_type_det")
        \* a target that IS deterministic and is not declared noisy (scenario truth, not the level the code settled on)
        \* is reported and treated as deterministic
        \cup Chk(s.noise = "det" => (Ev.ttype = "deterministic" /\ ~noisy), "C04.target_type_det")
        \cup Chk(~noisy => nf = 0 /\ Ev.nvec = 0, "C04.no_final_sampling")
        \cup Chk((~noisy /\ s.noise = "det") => Ev.fvalR <= first, "C06.result_leq_start")
        \* stochastic (C05)
        \cup Chk(noisy => Ev.ttype = (IF s.uhl = 2 THEN "stochastic (specified noise)"
                                      ELSE "stochastic"), "C05.target_type_stochastic")
        \cup Chk(noisy => Ev.pid \in nonfinalPids, "C05.result_evaluated_earlier")
        \cup Chk(noisy => ((nf = expNf \/ Ev.msg = "outfcn") /\ tailAtX), "C05.final_samples_at_x")
        \cup Chk(noisy => yvOK, "C05.yvec_is_final_obs")
        \* the earlier observation at x; when x was observed several times under specified noise the log holds ONE
        \* record for it, whose value is the precision-weighted mean of those observations (and whose SD is smaller
        \* than each reported SD): that merged record is then "the earlier observation"
        \cup Chk((noisy /\ expNf = 1 /\ Ev.nvec = 2) =>
                   (IF s.uhl = 2 /\ nEarlierAtX >= 2
                    THEN atx # {} /\ (\A y \in atx : TRUE) /\
                         (\E a \in atx : a <= Ev.yvR[2]) /\ (\E b \in atx : Ev.yvR[2] <= b)
                    ELSE Ev.yvR[2] \in atx),
                 "C05.yvec_supplement_at_x")
        \cup Chk(noisy => ysdOK, "C05.ysd_is_reported")
        \cup Chk((s.uhl = 2 /\ expNf = 1 /\ Len(Ev.ysR) = 2) =>
                   (IF nEarlierAtX >= 2 THEN \E b \in sdatx : Ev.ysR[2] <= b ELSE Ev.ysR[2] \in sdatx),
                 "C05.ysd_supplement_at_x")
        \cup Chk((noisy /\ Ev.nvec > 0) => Ev.fvalmean, "C05.fval_is_mean")
        \cup Chk((noisy /\ Ev.nvec > 0) => Ev.fsdsem, "C05.fsd_is_sem")
        \* a fault was injected but the run returned normally
        \cup Chk(s.injected = "", "C10.fault_swallowed"))

(* ---- an exception escaped optimize() ------------------------------------ *)
TCrash ==
  /\ IsEv("Crash")
  /\ LET n == Len(s.calls)
         inj == s.injected # ""
         exptype == IF s.injected = "exception" THEN "InjectedTargetError"
                    ELSE IF s.injected = "exception2" THEN "InjectedTargetError2"
                    ELSE IF s.injected = "exception3" THEN "InjectedStopIteration"
                    ELSE IF s.injected = "exception4" THEN "InjectedLinAlgError"
                    ELSE IF s.injected = "exception5" THEN "InjectedTypeError" ELSE "ValueError"
     IN Step([s EXCEPT !.phase = "crashed", !.ended = "crash"],
             Chk(inj \/ Ev.type \in {"NonProgress", "RunTimeout"}, "C09.no_crash")
        \cup Chk(Ev.type # "NonProgress", "C03.non_progress_bounded")
        \* the per-run watchdog fired: optimize() did not return within the wall-clock limit
        \cup Chk(Ev.type # "RunTimeout", "C03.run_terminates")
        \cup Chk(inj => Ev.type = exptype,
                 IF s.injected \in {"exception", "exception2", "exception3", "exception4", "exception5"} THEN "C10.same_exception_type"
                 ELSE "C10.invalid_value_is_valueerror")
        \cup Chk(inj => (Ev.fc = n /\ Ev.ncalls = n + 1), "C10.count_only_valid")
        \cup Chk(inj => (Ev.loggedfinite /\ Ev.nlog <= n), "C10.nothing_invalid_logged"))

(* ---- final state of the evaluation log (C01 internal clauses, C12) ------ *)
TFinalLog ==
  /\ IsEv("FinalLog")
  /\ Step(s, Chk(Ev.inint, "C01.log_in_box_int")
        \cup Chk(Ev.inorig, "C01.log_in_box_orig")
        \cup Chk(Ev.mapsback, "C01.log_maps_back")
        \cup Chk(Ev.order, "C12.log_in_call_order")
        \cup Chk(Ev.vals, "C12.log_values_exact")
        \cup Chk(Ev.nevsum = Ev.nok, "C12.nevals_exact")
        \cup Chk(Ev.fc = Ev.nok, "C12.func_count_exact"))

TRunEnd ==
  /\ IsEv("RunEnd")
  /\ LET fin == AddErrs(Chk(s.ended # "" \/ s.phase \in {"begun"}, "C09.run_incomplete"))
         v == Append(verdicts, [r |-> Ev.r, errs |-> fin])
     IN /\ verdicts' = v
        /\ (l = NEv => JsonSerialize(IOEnv.OUT_FILE, v))
        /\ errs' = {}
        /\ s' = S0
        /\ l' = l + 1

TNext ==
  \/ TRunBegin \/ TConstruct \/ TOptimizeBegin \/ TEval \/ TStrayCall \/ TConsCall
  \/ TFilter \/ TInitDone \/ TReserve \/ TSearchBegin \/ TSearchEnd \/ TPollBegin
  \/ TPollDirs \/ TPollEnd \/ THistRecord \/ TLoopEnd \/ TNonProgress
  \/ TGPTrainSet \/ TNeighbors \/ TGPAdd \/ TAcq \/ TESReturn \/ THedgeCall
  \/ TFitAttempt \/ TObserverError \/ TResult \/ TCrash \/ TFinalLog \/ TRunEnd

TSpec == TInit /\ [][TNext]_tvars

\* every line of the trace was consumed
TraceAccepted == TLCGet("stats").diameter = NEv + 1
=============================================================================
