SPECIFICATION Spec
CONSTANT K = 5
INVARIANT ValidImpliesOrdered
INVARIANT NoDimNeverValid
