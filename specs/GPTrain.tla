------------------------------- MODULE GPTrain -------------------------------
(***************************************************************************)
(* The GP-fit retry ladders of pybads/bads/gaussian_process_train.py under *)
(* injected linear-algebra failures (C16).                                 *)
(*                                                                         *)
(*  - init_and_train_gp (l.154-187): attempt 0 uses the given              *)
(*    hyperparameters, attempts 1-2 a sample from the priors, attempt 3    *)
(*    zeros, later attempts prior samples again; retried until it works.   *)
(*  - _robust_gp_fit_ (l.514-638): up to NTryFit attempts; from the second *)
(*    failure on (i_try > RemoveAfter - 1) the closest/worst points are    *)
(*    dropped from X, Y -- and the noise vector must shrink with them.     *)
(*    How many points go is data dependent: the larger member of the       *)
(*    closest pair plus every point above the 95th percentile, i.e. between *)
(*    1 and 1 + ceil(n/20) rows, and for n >= 2 never all of them.  For     *)
(*    n = 1 the "closest pair" is the point itself: without a guard the     *)
(*    set becomes EMPTY and the next attempt fails with a ValueError that   *)
(*    no handler catches (GuardSingle = FALSE reproduces the defect found   *)
(*    on the pinned tree; the repaired code corresponds to TRUE).           *)
(*                                                                         *)
(* A run performs the initial training and then NRefit robust refits; fit  *)
(* invocations are numbered 0,1,2,... across the run and invocation k      *)
(* fails iff k \in pattern.  TLC enumerates every pattern (this is the     *)
(* fault enumeration replayed into real runs) and checks that every        *)
(* attempt receives consistent arguments and that the run completes.       *)
(***************************************************************************)
EXTENDS Integers, FiniteSets, TLC

CONSTANTS NFit,        \* fault patterns range over invocations 0..NFit-1
          MaxFaults,   \* at most this many faults per pattern
          NRefit,      \* robust refits after the initial training
          NTryFit,     \* attempts of one robust refit (10 in the code)
          RemoveAfter, \* options['remove_points_after_tries'] (1)
          N0,          \* training-set size
          HasNoise,    \* a noise vector accompanies the training set
          ShrinkNoise, \* TRUE: the noise vector is shrunk together with X, Y
          GuardSingle  \* TRUE: a one-point training set is never shrunk further

VARIABLES pattern, phase, fi, att, nX, nY, nS, refits, hypKind, ok

vars == <<pattern, phase, fi, att, nX, nY, nS, refits, hypKind, ok>>

Patterns == {P \in SUBSET (0 .. NFit - 1) : Cardinality(P) <= MaxFaults}

Init ==
  /\ pattern \in Patterns
  /\ phase = "init_train" /\ fi = 0 /\ att = 0
  /\ nX = N0 /\ nY = N0 /\ nS = IF HasNoise THEN N0 ELSE -1
  /\ refits = 0 /\ hypKind = "given" /\ ok = TRUE

Consistent == nX = nY /\ (nS = -1 \/ nS = nX)

\* numbers of rows a failed attempt may remove from an n-point set (l.552-575)
MaxDrop(n) == 1 + (n + 19) \div 20
Drops(n, a) ==
  IF a <= RemoveAfter - 1 THEN {0}
  ELSE IF n >= 2 THEN 1 .. (IF MaxDrop(n) < n - 1 THEN MaxDrop(n) ELSE n - 1)
  ELSE IF n = 1 THEN (IF GuardSingle THEN {0} ELSE {1})
  ELSE {0}

\* one attempt of the initial training
InitAttempt ==
  /\ phase = "init_train"
  /\ hypKind' = IF att = 0 THEN "given" ELSE IF att = 3 THEN "zeros" ELSE "prior_sample"
  /\ fi' = fi + 1
  /\ IF fi \in pattern
     THEN /\ att' = att + 1 /\ phase' = phase /\ UNCHANGED <<nX, nY, nS, refits, ok>>
     ELSE /\ att' = 0 /\ phase' = IF NRefit > 0 THEN "refit" ELSE "done"
          /\ UNCHANGED <<nX, nY, nS, refits, ok>>
  /\ UNCHANGED pattern

\* one attempt of a robust refit; a fresh training set at the first attempt
RefitAttempt ==
  /\ phase = "refit"
  /\ att < NTryFit
  /\ fi' = fi + 1
  /\ hypKind' = IF att = 0 THEN "current" ELSE "prior_mix"
  /\ IF ~Consistent
     THEN \* a shape error escapes the retry loop: the run aborts
          /\ phase' = "aborted" /\ ok' = FALSE /\ UNCHANGED <<att, nX, nY, nS, refits>>
     ELSE IF nX = 0
          THEN \* fitting an empty set raises a ValueError, which is not handled
               /\ phase' = "aborted" /\ ok' = FALSE /\ UNCHANGED <<att, nX, nY, nS, refits>>
     ELSE IF fi \in pattern
          THEN \E drop \in Drops(nX, att) :
                  /\ att' = att + 1
                  /\ nX' = nX - drop /\ nY' = nY - drop
                  /\ nS' = IF nS = -1 THEN -1 ELSE IF ShrinkNoise THEN nS - drop ELSE nS
                  /\ UNCHANGED <<phase, refits, ok>>
          ELSE /\ att' = 0
               /\ refits' = refits + 1
               /\ phase' = IF refits + 1 >= NRefit THEN "done" ELSE "refit"
               /\ nX' = N0 /\ nY' = N0 /\ nS' = IF HasNoise THEN N0 ELSE -1
               /\ ok' = ok
  /\ UNCHANGED pattern

\* all NTryFit attempts failed: the code falls out of the loop with `res` never assigned and
\* `return gp, new_hyp, res, success` raises UnboundLocalError -- the run aborts.  (Ten
\* consecutive failures are outside C16's quantifier, runs of 2-4; with MaxFaults <= 4 this
\* action is unreachable in the checked instances and is kept for fidelity.)
RefitGiveUp ==
  /\ phase = "refit" /\ att = NTryFit
  /\ phase' = "aborted" /\ ok' = FALSE
  /\ UNCHANGED <<pattern, fi, att, nX, nY, nS, refits, hypKind>>

Done == phase \in {"done", "aborted"} /\ UNCHANGED vars

Next == InitAttempt \/ RefitAttempt \/ RefitGiveUp \/ Done
Spec == Init /\ [][Next]_vars /\ WF_vars(Next)

\* C16
FitArgsConsistent == phase = "refit" => Consistent
NeverAborts == phase # "aborted"
FitSetNonEmpty == phase = "refit" => nX >= 1
RunCompletes == <>(phase = "done")
=============================================================================
