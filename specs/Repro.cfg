SPECIFICATION Spec
CONSTANTS
  SeedT = 7
  X0Given = FALSE
  DimT = 2
  MaxLen = 6
INVARIANT RunInputHistoryFree
