---------------------------- MODULE BadsRules ----------------------------
(***************************************************************************)
(* Pure transition rules of the BADS controller (pybads/bads/bads.py,     *)
(* BADS.optimize and the helpers it calls).  One operator per code block. *)
(* This module is the single source of truth for the rules: the design    *)
(* specification BadsRun uses them as the right-hand sides of its actions *)
(* and the trace specification BadsRunTrace uses the same operators to    *)
(* recompute what every logged step of a real execution should have done. *)
(***************************************************************************)
EXTENDS Integers, Sequences, FiniteSets

Min2(a, b) == IF a <= b THEN a ELSE b
Max2(a, b) == IF a >= b THEN a ELSE b

(* ---- evaluation budget: reserve for the final re-sampling (l.1071-1080) *)
\* noisy targets keep min(nfinal, budget - fc) evaluations for the end
ReserveFinal(noisy, budget, fcInit, nfinal) ==
  IF noisy
  THEN LET nf == Min2(nfinal, budget - fcInit)
       IN  [budgetEff |-> budget - nf, nfinalEff |-> nf]
  ELSE [budgetEff |-> budget, nfinalEff |-> 0]

(* ---- search mesh exponent when search_size_locked (l.1196-1202) ------- *)
SearchSizeLocked(k, mult, G) == Min2(0, k * mult - G)

(* ---- shall a search step be attempted (l.1229-1233) ------------------- *)
DoSearch(sc, ntry, nlogged, D) == sc < ntry /\ nlogged > D

(* ---- search/poll alternation (l.1247-1282) ----------------------------
   Input: counters after the (possible) search step of this loop iteration.
   expand/incr model search_mesh_expand / search_mesh_increment.            *)
Decide(sc, ss, spree, k, ntry, skipPollAfterSearch, expand, incr, kcap) ==
  IF sc = 0 \/ sc = ntry
  THEN IF ss > 0 /\ skipPollAfterSearch
       THEN LET sp == spree + 1
                kk == IF expand > 0 /\ (sp % expand) = 0 /\ incr > 0
                      THEN Min2(k + incr, kcap) ELSE k
            IN [sc |-> 0, ss |-> 0, spree |-> sp, doPoll |-> FALSE, k |-> kk]
       ELSE [sc |-> 0, ss |-> 0, spree |-> 0, doPoll |-> TRUE, k |-> k]
  ELSE [sc |-> sc, ss |-> ss, spree |-> spree, doPoll |-> FALSE, k |-> k]

(* ---- poll loop guard (l.1919-1926) ------------------------------------ *)
PollMayEvaluate(fc, budgetEff, count, D, remaining) ==
  fc < budgetEff /\ count < 2 * D /\ remaining > 0

(* ---- mesh exponent after a poll step (l.2173-2231) -------------------- *)
\* good    : the poll found a sufficient improvement (certain_good_poll)
\* stalled : historic improvement over accelSteps iterations < tol_fun
MeshAfterPoll(k, good, accel, accelSteps, iter, stalled, kcap) ==
  IF good THEN Min2(k + 1, kcap)
  ELSE IF accel /\ iter > accelSteps /\ stalled THEN k - 2 ELSE k - 1

SearchSizeAfterPoll(ks, kNew, good, mult, G) ==
  IF good THEN ks ELSE Min2(ks, kNew * mult - G)

(* ---- termination tests at the end of a loop iteration (l.1299-1337) --- *)
\* the code assigns msg in this order, later tests overwrite earlier ones
TermConds(fc, budgetEff, iter, maxIter, k, ktol, stall) ==
  [maxfun  |-> fc >= budgetEff,
   maxiter |-> iter >= maxIter - 1,
   tolmesh |-> k < ktol,
   tolfun  |-> stall]

TermMsg(c) ==
  IF c.tolfun THEN "tolfun"
  ELSE IF c.tolmesh THEN "tolmesh"
  ELSE IF c.maxiter THEN "maxiter"
  ELSE IF c.maxfun THEN "maxfun" ELSE ""

Finished(c) == c.maxfun \/ c.maxiter \/ c.tolmesh \/ c.tolfun

(* ---- is the named message truthful for the exit state ----------------- *)
MsgTruthful(msg, c) ==
  CASE msg = "maxfun"  -> c.maxfun
    [] msg = "maxiter" -> c.maxiter
    [] msg = "tolmesh" -> c.tolmesh
    [] msg = "tolfun"  -> c.tolfun
    [] OTHER -> FALSE

(* ---- history is recorded iff the iteration polled or terminated ------- *)
RecordsHistory(doPoll, finished) == doPoll \/ finished

(* ---- poll iteration counter advances iff polled and not finished ------ *)
NextIter(iter, doPoll, finished) ==
  IF ~finished /\ doPoll THEN iter + 1 ELSE iter

(* ---- search scale factor (_update_search_stats_, l.2468-2522) ---------- *)
\* kept as sf2 = 2*log2(search_factor): success *sqrt(2) -> +1, incremental
\* *2 -> +2, failure *sqrt(1/2) -> -1; reset to 1 (sf2 = 0) when the round of
\* search_n_try attempts is complete
NextSearchFactor(sf2, status, scAfter, ntry) ==
  IF scAfter = ntry THEN 0
  ELSE IF status = "success" THEN sf2 + 1
  ELSE IF status = "incremental" THEN sf2 + 2
  ELSE sf2 - 1

(* ---- mesh overflow counter (_check_mesh_overflow_, l.2553) -------------- *)
NextOverflows(ovf, good, kBefore, kcap) ==
  IF good /\ kBefore = kcap THEN ovf + 1 ELSE ovf

(* ---- size of the Sobol initial design (init_sobol.py l.55-58, bads.py l.974-989)
   requested = min(fun_eval_start, budget - 1); drawn = 2^m with m = ceil(log2 requested),
   one more doubling when 2^m equals the dimension                                          *)
RECURSIVE CeilLog2Aux(_, _, _)
CeilLog2Aux(n, m, p) == IF p >= n THEN m ELSE CeilLog2Aux(n, m + 1, 2 * p)
CeilLog2(n) == CeilLog2Aux(n, 0, 1)
RECURSIVE Pow2(_)
Pow2(m) == IF m = 0 THEN 1 ELSE 2 * Pow2(m - 1)
SobolDrawn(requested, D) ==
  LET m == CeilLog2(requested)
  IN IF Pow2(m) = D THEN Pow2(m + 1) ELSE Pow2(m)
\* noisy targets start from at least 20 points (bads.py l.963-967)
FunEvalStartEff(noisy, fes, budget) ==
  IF noisy THEN Min2(Max2(20, fes), budget) ELSE fes
InitRequested(noisy, fes, budget) == Min2(FunEvalStartEff(noisy, fes, budget), budget - 1)

(* ---- hyperparameter refits are at least min_refit_time evaluations apart (l.2354-2365) *)
RefitSpacingOk(fcNow, fcLastRefit, minRefitTime) == fcLastRefit < fcNow - minRefitTime

(* ---- model-checked bound on consecutive non-progress loop iterations -- *)
\* (proved tight by TLC on BadsRun, see BadsRun.tla NonProgressBounded)
NonProgressBound(ntry) == IF ntry >= 1 THEN 2 * ntry - 2 ELSE 0

=============================================================================
