SPECIFICATION Spec
CONSTANTS
  Dim = 3
  N = 4
INVARIANT NonSingular
INVARIANT DetIsNPowD
INVARIANT EntriesBounded
INVARIANT Symmetric
INVARIANT AllDistinct
INVARIANT SignedPermutation
