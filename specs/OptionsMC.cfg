SPECIFICATION Spec
CONSTANTS
  Inst <- MCInst
  DimOf <- MCDimOf
  UserOf <- MCUserOf
INVARIANT UserWins
INVARIANT DependentSeesUser
INVARIANT DefaultsForOwnD
INVARIANT AllSet
PROPERTY NoLeak
