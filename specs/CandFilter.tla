----------------------------- MODULE CandFilter -----------------------------
(***************************************************************************)
(* The candidate filter pybads/function_logger/constraints_check.py        *)
(* (contraints_check) as a function of its inputs, on a small integer      *)
(* lattice (function-spec route).  The box is [0,1]^Dim, candidates are    *)
(* drawn from {-1..2}^Dim, any subset of the box lattice points may have   *)
(* been evaluated already, any subset of them may be infeasible.           *)
(*                                                                         *)
(* The property (C17) fixes postconditions only -- the order of the output *)
(* is free and nothing obliges the filter to keep a point -- so the        *)
(* invariants below are stated on `ideal`, the largest output the          *)
(* postconditions admit; the replay driver evaluates the same              *)
(* postconditions on what the real function returns for each enumerated    *)
(* input.                                                                  *)
(***************************************************************************)
EXTENDS Integers, Sequences, FiniteSets, TLC

CONSTANTS Dim,      \* 1 or 2
          MaxCand   \* maximal number of candidate rows

Coord == -1 .. 2
Pt == [1 .. Dim -> Coord]
InBox(p) == \A i \in 1 .. Dim : p[i] >= 0 /\ p[i] <= 1
BoxPts == {p \in Pt : InBox(p)}
Clamp(x) == IF x < 0 THEN 0 ELSE IF x > 1 THEN 1 ELSE x
Project(p) == [i \in 1 .. Dim |-> Clamp(p[i])]

CandSeqs == UNION {[1 .. n -> Pt] : n \in 0 .. MaxCand}

VARIABLES cands,      \* candidate rows, in order (repeats allowed)
          evaluated,  \* already evaluated points (subset of the box lattice)
          infeasible, \* box points violating the non-box constraints
          proj,       \* TRUE: project onto the box, FALSE: drop outside rows
          ideal       \* the ideal output set

vars == <<cands, evaluated, infeasible, proj, ideal>>

Moved(c, pj) == IF pj THEN {Project(c[i]) : i \in DOMAIN c}
                ELSE {c[i] : i \in {j \in DOMAIN c : InBox(c[j])}}
Ideal(c, e, f, pj) == {p \in Moved(c, pj) : p \notin e /\ p \notin f}

Init ==
  /\ cands \in CandSeqs
  /\ evaluated \in SUBSET BoxPts
  /\ infeasible \in SUBSET BoxPts
  /\ proj \in BOOLEAN
  /\ ideal = Ideal(cands, evaluated, infeasible, proj)

Next == UNCHANGED vars
Spec == Init /\ [][Next]_vars

\* postconditions of C17, as predicates on an output set `out`
OutInBox(out)        == \A p \in out : InBox(p)
OutFeasible(out)     == out \cap infeasible = {}
OutNotEvaluated(out) == out \cap evaluated = {}
OutFromInput(out)    == out \subseteq Moved(cands, proj)

IdealSatisfies ==
  OutInBox(ideal) /\ OutFeasible(ideal) /\ OutNotEvaluated(ideal) /\ OutFromInput(ideal)
\* the ideal output is the largest admissible one
IdealMaximal ==
  \A p \in Moved(cands, proj) : (p \notin ideal) => (p \in evaluated \/ p \in infeasible)
=============================================================================
