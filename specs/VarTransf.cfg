SPECIFICATION Spec
CONSTANTS
  NINF = 999998
  PINF = 999999
INVARIANT PlausibleToUnit
INVARIANT InsideImageBox
INVARIANT LogRule
