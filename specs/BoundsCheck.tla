----------------------------- MODULE BoundsCheck -----------------------------
(***************************************************************************)
(* Validity of a BADS problem definition (x0, lb, ub, plb, pub), one       *)
(* coordinate, transcribed from the STATEMENT of property C08 -- not from   *)
(* the code (BADS.__init__ / _bounds_check_ in pybads/bads/bads.py and the *)
(* ordering check of VariableTransformer).                                 *)
(*                                                                         *)
(* Function-spec route: every definition of the small instance is an       *)
(* initial state; `verdict` is the expected outcome of BADS(...):          *)
(*   "invalid"  ValueError, target never called                            *)
(*   "valid"    accepted and normalised                                    *)
(*   "either"   the statement leaves the verdict open (non-finite x0 given *)
(*              explicitly), but if accepted it must be normalised         *)
(* What the validator can distinguish per coordinate is which fields are   *)
(* absent / -inf / +inf / NaN and the weak ordering of the finite ones, so *)
(* finite values are ranks 0..K-1 forming an initial segment (canonical    *)
(* representatives of all weak orderings).                                 *)
(***************************************************************************)
EXTENDS Integers, FiniteSets, TLC

CONSTANT K      \* number of finite ranks (5 fields => 5 suffices)

\* value encoding (TLC cannot compare strings with integers):
\*   -1 = -inf, 0..K-1 finite ranks, K = +inf, K+1 = NaN, K+2 = absent
NINF == -1
PINF == K
NAN  == K + 1
NONE == K + 2
Fin == 0 .. (K - 1)
Val == NINF .. NONE

VARIABLES x0, lb, ub, plb, pub, verdict, reason

vars == <<x0, lb, ub, plb, pub, verdict, reason>>

IsFin(v) == v \in Fin
\* extended order on {-inf} u Fin u {+inf}; NaN compares false with everything
Leq(a, b) == a # NAN /\ b # NAN /\ a # NONE /\ b # NONE /\ a <= b
Lt(a, b) == Leq(a, b) /\ a # b

\* defaults: absent hard bounds are infinite; absent plausible bounds default
\* to the hard bounds
LbE(l) == IF l = NONE THEN NINF ELSE l
UbE(u) == IF u = NONE THEN PINF ELSE u
PlbE(p, l) == IF p = NONE THEN LbE(l) ELSE p
PubE(p, u) == IF p = NONE THEN UbE(u) ELSE p

\* first reason (in the order of the statement) why a definition is invalid
Reason(vx0, vlb, vub, vplb, vpub) ==
  LET l == LbE(vlb)  u == UbE(vub)
      pl == PlbE(vplb, vlb)  pu == PubE(vpub, vub)
  IN IF vx0 = NONE /\ ((vplb = NONE /\ vlb = NONE) \/ (vpub = NONE /\ vub = NONE))
        THEN "no_dimension"
     ELSE IF ~IsFin(pl) \/ ~IsFin(pu) THEN "plausible_not_finite"
     ELSE IF pl = pu THEN "plausible_equal"
     ELSE IF ~(Leq(l, pl) /\ Lt(pl, pu) /\ Leq(pu, u)) THEN "not_ordered"
     ELSE IF IsFin(vx0) /\ (Lt(vx0, l) \/ Lt(u, vx0)) THEN "x0_outside"
     ELSE IF vx0 = PINF /\ u # PINF THEN "x0_outside"
     ELSE IF vx0 = NINF /\ l # NINF THEN "x0_outside"
     ELSE IF l = u THEN "hard_identical"
     ELSE IF IsFin(l) # IsFin(u) THEN "half_bounded"
     ELSE IF vx0 \in {NAN, PINF, NINF} THEN "x0_nonfinite"
     ELSE "ok"

Verdict(r) == IF r = "ok" THEN "valid"
              ELSE IF r = "x0_nonfinite" THEN "either" ELSE "invalid"

\* canonical: the finite ranks in use form an initial segment 0..m
Canonical(S) == LET F == S \cap Fin
                IN \A r \in F : \A q \in Fin : q < r => q \in F

Init ==
  /\ x0 \in Val /\ lb \in Val /\ ub \in Val /\ plb \in Val /\ pub \in Val
  /\ Canonical({x0, lb, ub, plb, pub})
  /\ reason = Reason(x0, lb, ub, plb, pub)
  /\ verdict = Verdict(reason)

Next == UNCHANGED vars
Spec == Init /\ [][Next]_vars

-----------------------------------------------------------------------------
\* sanity of the transcription: a valid definition is ordered, its plausible
\* bounds are finite and distinct, x0 (if finite) lies within the hard bounds,
\* and the variable is bounded on both sides or on neither
ValidImpliesOrdered ==
  verdict = "valid" =>
    LET l == LbE(lb)  u == UbE(ub)  pl == PlbE(plb, lb)  pu == PubE(pub, ub)
    IN /\ IsFin(pl) /\ IsFin(pu) /\ pl < pu
       /\ Leq(l, pl) /\ Leq(pu, u)
       /\ (IsFin(x0) => Leq(l, x0) /\ Leq(x0, u))
       /\ (IsFin(l) = IsFin(u))
       /\ (x0 \in Fin \/ x0 = NONE)
\* a definition without any way to know the dimension is never valid
NoDimNeverValid ==
  (x0 = NONE /\ plb = NONE /\ lb = NONE) => verdict = "invalid"
=============================================================================
