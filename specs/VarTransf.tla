------------------------------ MODULE VarTransf ------------------------------
(***************************************************************************)
(* One coordinate of pybads/variable_transformer/variables_transformer.py  *)
(* (VariableTransformer) as a function of its bounds and of a test point   *)
(* (function-spec route).  All values are integers from a small grid that  *)
(* contains the interesting cells of the log rule (ratio pub/plb just      *)
(* below, at and above 10; zero and negative bounds; infinite hard bounds).*)
(*                                                                         *)
(*  mode    "log" iff all four bounds > 0 and pub >= 10 * plb, else "lin"  *)
(*  image   of the test point, as an exact rational <<num, den>>:          *)
(*          lin: (2x - plb - pub) / (pub - plb)                            *)
(*          log: (2 e(x) - e(plb) - e(pub)) / (e(pub) - e(plb)) when x,    *)
(*               plb, pub are powers of ten (e = decimal exponent); the    *)
(*               base of the logarithm cancels.  Otherwise "inexact".      *)
(*  points outside the hard bounds are clamped to the nearest bound.       *)
(***************************************************************************)
EXTENDS Integers, FiniteSets, TLC

CONSTANTS NINF, PINF      \* codes for infinite hard bounds (outside the grid)

Grid == {-5, 0, 1, 2, 9, 10, 11, 100, 1000}
Pts == Grid \cup {-6, 1001, 5}

VARIABLES lb, plb, pub, ub, x, mode, img, exact, xc

vars == <<lb, plb, pub, ub, x, mode, img, exact, xc>>

Leq(a, b) == a = NINF \/ b = PINF \/ (a # PINF /\ b # NINF /\ a <= b)
Pos(v) == v = PINF \/ (v # NINF /\ v > 0)

Mode(l, pl, pu, u) ==
  IF Pos(l) /\ pl > 0 /\ pu > 0 /\ Pos(u) /\ pu >= 10 * pl THEN "log" ELSE "lin"

IsPow10(v) == v \in {1, 10, 100, 1000}
Exp10(v) == IF v = 1 THEN 0 ELSE IF v = 10 THEN 1 ELSE IF v = 100 THEN 2 ELSE 3

\* clamp the test point into the hard bounds
Clamp(p, l, u) == IF l # NINF /\ p < l THEN l ELSE IF u # PINF /\ p > u THEN u ELSE p

Image(m, p, pl, pu) ==
  IF m = "lin" THEN <<2 * p - pl - pu, pu - pl>>
  ELSE IF IsPow10(p) /\ IsPow10(pl) /\ IsPow10(pu)
       THEN <<2 * Exp10(p) - Exp10(pl) - Exp10(pu), Exp10(pu) - Exp10(pl)>>
       ELSE <<0, 0>>          \* not exactly representable: checked by guards only

Init ==
  /\ lb \in Grid \cup {NINF} /\ ub \in Grid \cup {PINF}
  /\ plb \in Grid /\ pub \in Grid /\ x \in Pts
  /\ Leq(lb, plb) /\ plb < pub /\ Leq(pub, ub)
  /\ mode = Mode(lb, plb, pub, ub)
  /\ xc = Clamp(x, lb, ub)
  /\ img = Image(mode, xc, plb, pub)
  /\ exact = (img[2] # 0)
  \* the log map is only defined for positive points
  /\ (mode = "log" => xc > 0)

Next == UNCHANGED vars
Spec == Init /\ [][Next]_vars

-----------------------------------------------------------------------------
\* C11 -- properties of the specified map itself
\* plausible bounds map to -1 and +1
PlausibleToUnit ==
  /\ Image(mode, plb, plb, pub)[2] # 0 => Image(mode, plb, plb, pub)[1] = 0 - Image(mode, plb, plb, pub)[2]
  /\ Image(mode, pub, plb, pub)[2] # 0 => Image(mode, pub, plb, pub)[1] = Image(mode, pub, plb, pub)[2]
\* the image of an in-box point lies between the images of the hard bounds
\* (cross-multiplied comparison of rationals with positive denominators)
RLeq(a, b) == a[1] * b[2] <= b[1] * a[2]
InsideImageBox ==
  exact =>
    /\ (lb # NINF /\ Image(mode, lb, plb, pub)[2] # 0 => RLeq(Image(mode, lb, plb, pub), img))
    /\ (ub # PINF /\ Image(mode, ub, plb, pub)[2] # 0 => RLeq(img, Image(mode, ub, plb, pub)))
\* log only with positive bounds spanning a decade
LogRule == (mode = "log") = (Pos(lb) /\ plb > 0 /\ pub >= 10 * plb /\ Pos(ub))
=============================================================================
