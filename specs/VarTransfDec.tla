----------------------------- MODULE VarTransfDec -----------------------------
(***************************************************************************)
(* Log-transformed coordinate on the decade grid: all bounds are powers of  *)
(* ten 10^e with e from a grid spanning 1e-12 .. 1e12, so the coordinate is *)
(* log-transformed and the image of 10^c is the exact rational              *)
(* (2c - a - b) / (b - a), where 10^a, 10^b are the plausible bounds.       *)
(***************************************************************************)
EXTENDS Integers, TLC
CONSTANT PINF
E == {-12, -7, -3, -1, 0, 1, 2, 5, 12}
P == E \cup {-13, 13, 4}
VARIABLES la, a, b, ub, c, cc, img
vars == <<la, a, b, ub, c, cc, img>>
Init ==
  /\ la \in E /\ a \in E /\ b \in E /\ ub \in E \cup {PINF} /\ c \in P
  /\ la <= a /\ a < b /\ (ub = PINF \/ b <= ub)
  /\ cc = (IF c < la THEN la ELSE IF ub # PINF /\ c > ub THEN ub ELSE c)
  /\ img = <<2 * cc - a - b, b - a>>
Next == UNCHANGED vars
Spec == Init /\ [][Next]_vars
\* the plausible bounds map to -1 / +1 and the image is monotone in the exponent
UnitAtPlausible == (cc = a => img[1] = 0 - img[2]) /\ (cc = b => img[1] = img[2])
ImageBox == (2 * la - a - b) * 1 <= img[1] /\ (ub # PINF => img[1] <= 2 * ub - a - b)
=============================================================================
