------------------------------ MODULE ESArchive ------------------------------
(***************************************************************************)
(* Candidate bookkeeping of the evolution-strategy search                  *)
(* (pybads/search/es_search.py, ESSearch.__call__, l.129-210) as a function *)
(* of what survives the feasibility filter in each generation and of the   *)
(* acquisition values of the survivors (function-spec route, C18).          *)
(*                                                                         *)
(* Generation 0 proposes Mu candidates, later generations                  *)
(* min(Lam, |selected|) offspring; of these, n_g survive the filter and     *)
(* receive acquisition values z (abstract ranks, ties allowed).  All        *)
(* survivors of all generations are accumulated; after each generation the  *)
(* best min(Lam, |archive|) are selected as parents.  The strategy returns  *)
(* the best selected candidate -- which must be a minimum over EVERYTHING   *)
(* that survived, whatever the generation -- or nothing when nothing        *)
(* survived.                                                               *)
(***************************************************************************)
EXTENDS Integers, Sequences, FiniteSets, TLC

CONSTANTS Mu, Lam, NGen, ZMax

Z == 0 .. ZMax
Batches(n) == UNION {[1 .. m -> Z] : m \in 0 .. n}

VARIABLES batches,   \* batches[g]: acquisition values of the survivors of generation g (in order)
          retz       \* expected acquisition value of the returned candidate (-1: nothing survived)

vars == <<batches, retz>>

Min2(a, b) == IF a <= b THEN a ELSE b
RECURSIVE Flatten(_, _)
Flatten(bs, g) == IF g = 0 THEN <<>> ELSE Flatten(bs, g - 1) \o bs[g]
SeqMin(sq) == CHOOSE m \in {sq[i] : i \in DOMAIN sq} : \A i \in DOMAIN sq : m <= sq[i]

\* number of candidates proposed in generation g (1-based), given the survivors so far
Proposed(bs, g) == IF g = 1 THEN Mu ELSE Min2(Lam, Min2(Lam, Len(Flatten(bs, g - 1))))

\* a generation cannot have more survivors than candidates proposed
Feasible(bs) == \A g \in 1 .. NGen : Len(bs[g]) <= Proposed(bs, g)

Init ==
  /\ batches \in [1 .. NGen -> Batches(IF Mu >= Lam THEN Mu ELSE Lam)]
  /\ Feasible(batches)
  /\ retz = (IF Flatten(batches, NGen) = <<>> THEN -1 ELSE SeqMin(Flatten(batches, NGen)))

Next == UNCHANGED vars
Spec == Init /\ [][Next]_vars

\* the selection kept after every generation always contains a global minimum
\* (sorting the whole archive and keeping the best Lam never loses the best one)
RECURSIVE CountLess(_, _)
CountLess(sq, v) == Cardinality({i \in DOMAIN sq : sq[i] < v})
BestAlwaysKept ==
  \A g \in 1 .. NGen :
     LET a == Flatten(batches, g)
     IN a # <<>> => CountLess(a, SeqMin(a)) = 0
ReturnIsGlobalMin ==
  retz # -1 => \A g \in 1 .. NGen : \A i \in DOMAIN batches[g] : retz <= batches[g][i]
=============================================================================
