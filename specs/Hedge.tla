-------------------------------- MODULE Hedge --------------------------------
(***************************************************************************)
(* Search portfolio (pybads/search/search_hedge.py) and the rank-selection *)
(* mask of the evolution strategy (pybads/search/es_search.py) -- C18.     *)
(*                                                                         *)
(* Part 1 (function-spec): for positive integer weights w_i (standing for   *)
(* exp(beta (g_i - max g))) and exploration floor gamma = 1/GammaInv the    *)
(* sampling probabilities are                                              *)
(*      p_i = w_i / W * (1 - n gamma) + gamma ,   W = sum w                *)
(* kept exact as numerators over the common denominator GammaInv * W.       *)
(* Part 2: the contract MaskValid of the selection mask, evaluated by TLC   *)
(* on the masks the real function produces (read from MASK_FILE).           *)
(***************************************************************************)
EXTENDS Integers, Sequences, FiniteSets, TLC, Json, IOUtils

CONSTANTS NFuns,      \* portfolio size
          GammaInv,   \* 1 / gamma (8 for the default 0.125)
          WMax        \* weights range over 1..WMax

VARIABLES w, num

vars == <<w, num>>

RECURSIVE SumTo(_, _)
SumTo(f, n) == IF n = 0 THEN 0 ELSE f[n] + SumTo(f, n - 1)
W(ww) == SumTo(ww, NFuns)
\* numerator of p_i over the denominator GammaInv * W
Num(ww, i) == ww[i] * (GammaInv - NFuns) + W(ww)

Init == /\ w \in [1 .. NFuns -> 1 .. WMax]
        /\ num = [i \in 1 .. NFuns |-> Num(w, i)]
Next == UNCHANGED vars
Spec == Init /\ [][Next]_vars

\* a proper distribution with an exploration floor
SumsToOne == SumTo(num, NFuns) = GammaInv * W(w)
AtLeastFloor == \A i \in 1 .. NFuns : num[i] >= W(w)          \* p_i >= gamma
FloorFeasible == NFuns <= GammaInv
\* better score, larger probability
Monotone == \A i, j \in 1 .. NFuns : w[i] >= w[j] => num[i] >= num[j]

-----------------------------------------------------------------------------
\* Part 2: selection-mask contract.  mask[k] (0-based parent index of the k-th
\* offspring) must start at 0, never decrease, never skip a rank, and every
\* index that is used (the first min(lambda, mu) entries) must be < mu.
MaskValid(m, mu, lam) ==
  LET used == IF lam <= mu THEN lam ELSE mu
  IN /\ Len(m) >= used
     /\ (used >= 1 => m[1] = 0)
     /\ \A k \in 1 .. (used - 1) : m[k + 1] >= m[k] /\ m[k + 1] - m[k] <= 1
     /\ \A k \in 1 .. used : m[k] >= 0 /\ m[k] < mu
=============================================================================
