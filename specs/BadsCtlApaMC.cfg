INIT MCInit
NEXT Next
CONSTANTS
  D = 1
  Budget = 9
  MaxIter = 4
  KTol <- MCKTol
  NTry = 2
  Skip = TRUE
  Accel = TRUE
  AccelSteps = 1
  NFinal = 2
  Noisy = FALSE
INVARIANT IndInv
INVARIANT Safety
CHECK_DEADLOCK FALSE
