SPECIFICATION Spec
CONSTANT PINF = 999
INVARIANT UnitAtPlausible
INVARIANT ImageBox
