------------------------------ MODULE IterHist ------------------------------
(***************************************************************************)
(* The history container pybads/utils/iteration_history.py                 *)
(* (IterationHistory.record / __setitem__) and the copy discipline of      *)
(* OptimizeResult.__setitem__ (pybads/bads/optimize_result.py): stored     *)
(* values are COPIES -- later mutation of the caller's (mutable) object    *)
(* must not change what was stored -- unknown keys and negative iteration  *)
(* indices are rejected and leave the container unchanged (C19).           *)
(***************************************************************************)
EXTENDS Integers, Sequences, TLC

CONSTANTS Keys,     \* keys declared at construction
          BadKey,   \* a key that was not declared
          Objs,     \* caller-owned mutable objects
          MaxIter,  \* iteration indices 0..MaxIter
          MaxOps

VARIABLES store,    \* store[k]: sequence of slots (-1 = None) of length >= 0
          content,  \* content[o]: current content of caller object o
          err,      \* last operation raised ValueError
          hist

vars == <<store, content, err, hist>>

None == -1
Init ==
  /\ store = [k \in Keys |-> <<>>]
  /\ content = [o \in Objs |-> 0]
  /\ err = FALSE /\ hist = <<>>

Pad(sq, n) == IF Len(sq) >= n THEN sq
              ELSE sq \o [j \in 1 .. (n - Len(sq)) |-> None]

\* record(key, value, iteration): grows the array up to iteration+1, stores a copy
Record(k, o, i) ==
  /\ Len(hist) < MaxOps
  /\ hist' = Append(hist, <<"record", k, o, i>>)
  /\ IF i < 0 \/ k = BadKey
     THEN /\ err' = TRUE /\ UNCHANGED <<store, content>>
     ELSE /\ err' = FALSE
          /\ store' = [store EXCEPT ![k] = [Pad(@, i + 1) EXCEPT ![i + 1] = content[o]]]
          /\ UNCHANGED content

\* the caller mutates its own object in place after having handed it over
Mutate(o) ==
  /\ Len(hist) < MaxOps
  /\ hist' = Append(hist, <<"mutate", o>>)
  /\ content' = [content EXCEPT ![o] = @ + 1]
  /\ err' = FALSE
  /\ UNCHANGED store

Next ==
  \/ \E k \in Keys \cup {BadKey}, o \in Objs, i \in -1 .. MaxIter : Record(k, o, i)
  \/ \E o \in Objs : Mutate(o)
  \/ (Len(hist) = MaxOps /\ UNCHANGED vars)
Spec == Init /\ [][Next]_vars

\* stored values are copies: mutating the caller's object never changes the store
StoredIsCopy == [][(hist' # hist /\ hist'[Len(hist')][1] = "mutate") => store' = store]_vars
\* a rejected operation leaves the container unchanged
RejectedIsNoop == [][err' => store' = store]_vars
\* record touches only the named key
OnlyNamedKey == [][\A k \in Keys : (store'[k] # store[k]) =>
                     (hist'[Len(hist')][1] = "record" /\ hist'[Len(hist')][2] = k)]_vars
=============================================================================
