-------------------------------- MODULE Repro --------------------------------
(***************************************************************************)
(* Process-level model for reproducibility (C07): what a seeded BADS       *)
(* instance T reads from state shared with the rest of the process.        *)
(*                                                                         *)
(* Shared state: NumPy's global generator (abstracted as <<seed, ndraws>>   *)
(* or "entropy" when it was never seeded), the module global D of          *)
(* options.py, the logging configuration.  T is constructed once and run   *)
(* once; in between, before and after, the process may construct / run     *)
(* foreign instances (other D, other or no seed) and draw from the global   *)
(* generator.                                                              *)
(*                                                                         *)
(*   BADS.__init__ : _init_random_seed_ (l.192) seeds the generator, then  *)
(*                   draws x0 when it was omitted (l.230-235)              *)
(*   optimize()    : _init_random_seed_ again (l.1049) before anything     *)
(*                   random happens                                        *)
(***************************************************************************)
EXTENDS Integers, Sequences, TLC

CONSTANTS SeedT,      \* seed of the instance under test
          X0Given,    \* BOOLEAN: T has an explicit starting point
          DimT,       \* dimension of T
          MaxLen      \* bound on the schedule length

VARIABLES rng,       \* <<seed, ndraws>> ; seed 0 = never seeded ("entropy")
          gD,        \* options.py module global D
          tStage,    \* "new" | "constructed" | "run"
          tX0,       \* what T's starting point depends on
          tInput,    \* what T's run read from the shared state at its start
          fBuilt,    \* a foreign instance exists
          fRan,      \* the foreign instance was run (optimize() is called once per instance)
          hist

vars == <<rng, gD, tStage, tX0, tInput, fBuilt, fRan, hist>>

Init ==
  /\ rng = <<0, 0>> /\ gD = 0 /\ tStage = "new" /\ tX0 = <<"none">>
  /\ tInput = <<"none">> /\ fBuilt = FALSE /\ fRan = FALSE /\ hist = <<>>

Draw(r) == <<r[1], r[2] + 1>>
\* a foreign step must leave room for the remaining steps of T
Room == Len(hist) < MaxLen - (IF tStage = "new" THEN 2 ELSE 1)

ConstructT ==
  /\ tStage = "new" /\ Len(hist) < MaxLen - 1
  /\ gD' = DimT
  /\ LET seeded == <<SeedT, 0>>
     IN IF X0Given
        THEN /\ tX0' = <<"given">> /\ rng' = seeded
        ELSE /\ tX0' = <<"drawn", seeded>> /\ rng' = Draw(seeded)
  /\ tStage' = "constructed"
  /\ hist' = Append(hist, "CT")
  /\ UNCHANGED <<tInput, fBuilt, fRan>>

RunT ==
  /\ tStage = "constructed" /\ Len(hist) < MaxLen
  /\ rng' = <<SeedT, 1>>                  \* re-seeded, then consumed by the run
  /\ tInput' = <<"rng", <<SeedT, 0>>, "x0", tX0, "D", DimT>>
  /\ tStage' = "run"
  /\ hist' = Append(hist, "RT")
  /\ UNCHANGED <<gD, tX0, fBuilt, fRan>>

\* the rest of the process
ForeignDraw ==
  /\ Room /\ tStage # "run"
  /\ rng' = Draw(rng) /\ hist' = Append(hist, "FD")
  /\ UNCHANGED <<gD, tStage, tX0, tInput, fBuilt, fRan>>

\* a foreign instance: seeded or not, of another dimension or of the SAME dimension as T
\* (with other options: noise mode, initial-design size)
ForeignConstruct(seeded, sameD) ==
  /\ Room /\ tStage # "run" /\ ~fBuilt
  /\ gD' = IF sameD THEN DimT ELSE DimT + 1
  /\ rng' = IF seeded THEN Draw(<<SeedT + 1, 0>>) ELSE Draw(rng)
  /\ fBuilt' = TRUE
  /\ hist' = Append(hist, IF seeded THEN (IF sameD THEN "FCsD" ELSE "FCs")
                                      ELSE (IF sameD THEN "FCuD" ELSE "FCu"))
  /\ UNCHANGED <<tStage, tX0, tInput, fRan>>

ForeignRun ==
  /\ Room /\ tStage # "run" /\ fBuilt /\ ~fRan
  /\ rng' = Draw(Draw(rng)) /\ hist' = Append(hist, "FR") /\ fRan' = TRUE
  /\ UNCHANGED <<gD, tStage, tX0, tInput, fBuilt>>

Next == ConstructT \/ RunT \/ ForeignDraw \/ (\E sd \in BOOLEAN, sm \in BOOLEAN : ForeignConstruct(sd, sm))
        \/ ForeignRun \/ (tStage = "run" /\ UNCHANGED vars)
Spec == Init /\ [][Next]_vars

\* C07: what the run of T reads is a function of T's own definition and seed
RunInputHistoryFree ==
  tStage = "run" =>
     tInput = <<"rng", <<SeedT, 0>>, "x0",
                (IF X0Given THEN <<"given">> ELSE <<"drawn", <<SeedT, 0>>>>), "D", DimT>>
=============================================================================
