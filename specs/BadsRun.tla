------------------------------ MODULE BadsRun ------------------------------
(***************************************************************************)
(* Design specification of one pybads run: BADS.optimize() in             *)
(* pybads/bads/bads.py, from the first target call to the OptimizeResult.  *)
(*                                                                         *)
(* One action per code block (anchors in comments).  Everything the       *)
(* random search / poll / GP machinery can produce is nondeterministic:   *)
(* the search set may be empty, a search evaluation may fail, improve     *)
(* incrementally or succeed; a poll evaluates 0..2D points of which any   *)
(* subset improves; the target may fail at any call.  Observed values are  *)
(* abstract ranks 0..NVals-1 (smaller is better) so that "best evaluated  *)
(* point" statements are decided for every value sequence including ties. *)
(*                                                                         *)
(* The transition rules themselves live in BadsRules and are shared with  *)
(* the trace specification that validates real executions.                *)
(***************************************************************************)
EXTENDS BadsRules, TLC

CONSTANTS
  D,            \* problem dimension
  Budget,       \* options['max_fun_evals']
  MaxIter,      \* options['max_iter']
  KTolAbs,      \* -log2 of the mesh tolerance: run stops when k < -KTolAbs
  KCap,         \* options['max_poll_grid_number'] (0 by default)
  NTry,         \* options['search_n_try']
  NFinal,       \* options['noise_final_samples']
  NInitMax,     \* largest number of initial-design points that survive filtering
  Noisy,        \* BOOLEAN: declared / specified noise (uncertainty handling on)
  AutoDetect,   \* BOOLEAN: deterministic declared, noise test may flip to noisy
  SkipPollAfterSearch, CompletePoll, AccelMesh,
  AccelSteps,   \* options['accelerate_mesh_steps']
  StallIters,   \* options['tol_stall_iters']
  SearchLocked, \* options['search_size_locked']
  GridMult, GridNum,  \* search_grid_multiplier, search_grid_number
  MeshExpand, MeshIncr, \* search_mesh_expand, search_mesh_increment
  Sloppy,       \* options['sloppy_improvement'] (default TRUE): any positive improvement moves the incumbent
  NVals,        \* number of abstract objective ranks
  Faults        \* BOOLEAN: target may fail at any call

KTol == 0 - KTolAbs
Vals == 0 .. (NVals - 1)

VARIABLES
  phase,      \* program counter of the life-cycle
  fc,         \* successful target calls (function_logger.func_count)
  ncalls,     \* target invocations including a failing one
  nlog,       \* logged (recorded) points
  noisy,      \* uncertainty_handling_level > 0
  budgetEff, nfinalEff,
  k, ks,      \* poll / search mesh exponents
  iter,       \* poll_iteration
  sc, ss, spree,
  doSearch, doPoll,
  pcount,     \* poll_count
  premain,    \* poll candidates left (after filtering)
  pgood,      \* certain_good_poll
  pbest,      \* value of the best improving polled point so far (or inc)
  inc,        \* observed value at the incumbent (yval)
  minSeen,    \* smallest value ever returned by the target
  lastRec,    \* incumbent value recorded at the last history record (-1: none)
  nrec,       \* number of history records written
  recVals,    \* incumbent values recorded in the iteration history so far
  finished, msg,
  np,         \* consecutive loop iterations without evaluation/poll/termination
  nfinalDone,
  resVal,     \* value reported in the result (-1 before)
  evald       \* a target call happened in the current loop iteration

\* variable groups (to keep the UNCHANGED clauses readable)
vCount == <<fc, ncalls, nlog, minSeen, evald>>     \* changed by every target call
vMode  == <<noisy, budgetEff, nfinalEff>>
vMesh  == <<k, ks>>
vCtr   == <<iter, sc, ss, spree>>
vFlag  == <<doSearch, doPoll>>
vPoll  == <<pcount, premain, pgood, pbest>>
vHist  == <<lastRec, nrec, recVals>>
vTerm  == <<finished, msg, np>>
vFinal == <<nfinalDone, resVal>>

vars == <<phase, vCount, vMode, vMesh, vCtr, vFlag, vPoll, inc, vHist, vTerm, vFinal>>

-----------------------------------------------------------------------------
Init ==
  /\ phase = "start"
  /\ fc = 0 /\ ncalls = 0 /\ nlog = 0
  /\ noisy = Noisy
  /\ budgetEff = Budget /\ nfinalEff = 0
  /\ k = 0 /\ ks = SearchSizeLocked(0, GridMult, GridNum)
  /\ iter = 0 /\ sc = NTry /\ ss = 0 /\ spree = 0
  /\ doSearch = FALSE /\ doPoll = FALSE
  /\ pcount = 0 /\ premain = 0 /\ pgood = FALSE /\ pbest = 0
  /\ inc = 0 /\ minSeen = NVals /\ lastRec = -1 /\ nrec = 0 /\ recVals = {}
  /\ finished = FALSE /\ msg = "" /\ np = 0 /\ nfinalDone = 0 /\ resVal = -1
  /\ evald = FALSE

\* a successful target call returning abstract value v
Called(v, logged) ==
  /\ fc' = fc + 1
  /\ ncalls' = ncalls + 1
  /\ nlog' = IF logged THEN nlog + 1 ELSE nlog
  /\ minSeen' = Min2(minSeen, v)
  /\ evald' = TRUE

\* the target raises / returns an invalid value: the run ends at once (C10)
TargetFault ==
  /\ Faults
  /\ phase \in {"start", "noisetest", "initdesign", "searcheval", "polleval", "finalsample"}
  /\ (phase = "finalsample" => nfinalDone < nfinalEff)
  /\ (phase = "polleval" => PollMayEvaluate(fc, budgetEff, pcount, D, premain))
  /\ (phase = "initdesign" => (pcount = 1 /\ premain > 0))
  /\ phase' = "failed"
  /\ ncalls' = ncalls + 1
  /\ UNCHANGED <<fc, nlog, minSeen, evald, vMode, vMesh, vCtr, vFlag, vPoll, inc, vHist, vTerm, vFinal>>

(* ---- _init_mesh_ (l.917-1038) ----------------------------------------- *)
\* (the actions that depend on an environment choice come in two forms: A_(args) with the
\*  choice as an argument -- bound to logged values by the trace specification BadsRunRefine --
\*  and A == \E args : A_(args) for the design model)
EvalX0_(v) ==
  /\ phase = "start"
  /\ Called(v, TRUE)
  /\ inc' = v
  /\ phase' = IF noisy THEN "initdesign" ELSE "noisetest"
  /\ UNCHANGED <<vMode, vMesh, vCtr, vFlag, vPoll, vHist, vTerm, vFinal>>
EvalX0 == \E v \in Vals : EvalX0_(v)

\* second evaluation at x0, not recorded; differs => stochastic (l.931-939)
NoiseTest_(v) ==
  /\ phase = "noisetest"
  /\ Called(v, FALSE)
  /\ noisy' = (AutoDetect /\ v # inc)
  /\ (~AutoDetect => v = inc)
  /\ phase' = "initdesign"
  /\ UNCHANGED <<budgetEff, nfinalEff, vMesh, vCtr, vFlag, vPoll, inc, vHist, vTerm, vFinal>>
NoiseTest == \E v \in Vals : NoiseTest_(v)

\* initial design: each surviving Sobol point is evaluated (l.974-1022);
\* modelled one evaluation at a time, premain = points still to evaluate
InitDesignBegin_(n) ==
  /\ phase = "initdesign" /\ premain = 0 /\ pcount = 0
  /\ fc + n <= Budget           \* precondition of the budget clause of C03
  /\ premain' = n
  /\ pcount' = 1                 \* marks "design drawn"
  /\ UNCHANGED <<phase, vCount, vMode, vMesh, vCtr, vFlag, pgood, pbest, inc, vHist, vTerm, vFinal>>
InitDesignBegin == \E n \in 0 .. NInitMax : InitDesignBegin_(n)

\* Under specified noise a design point that coincides with a logged one (in 1-D the Sobol design can hit
\* the snapped x0) is MERGED into that record: nothing new is logged and the record's value becomes the
\* precision-weighted mean, so the smallest logged value afterwards is any value (found by refinement
\* checking with VERIF_SEED=2,3: the first version logged every design point).
InitDesignEval_(v, merged, w) ==
  /\ phase = "initdesign" /\ pcount = 1 /\ premain > 0
  /\ (merged => noisy)
  /\ (~merged => w = Min2(inc, v))
  /\ Called(v, ~merged)
  /\ inc' = w                   \* incumbent := argmin over the logged values (l.1015)
  /\ premain' = premain - 1
  /\ UNCHANGED <<phase, vMode, vMesh, vCtr, vFlag, pcount, pgood, pbest, vHist, vTerm, vFinal>>
InitDesignEval == \E v \in Vals, merged \in BOOLEAN, w \in Vals : InitDesignEval_(v, merged, w)

\* _init_optimization_: reserve the final samples (l.1071-1080), train GP
InitDone ==
  /\ phase = "initdesign" /\ pcount = 1 /\ premain = 0
  /\ LET r == ReserveFinal(noisy, Budget, fc, NFinal)
     IN /\ budgetEff' = r.budgetEff
        /\ nfinalEff' = r.nfinalEff
  /\ pcount' = 0
  /\ phase' = "loopbegin"
  /\ UNCHANGED <<vCount, noisy, vMesh, vCtr, vFlag, premain, pgood, pbest, inc, vHist, vTerm, vFinal>>

(* ---- top of the while loop (l.1183-1233) ------------------------------ *)
LoopBegin ==
  /\ phase = "loopbegin"
  /\ ks' = IF SearchLocked THEN SearchSizeLocked(k, GridMult, GridNum) ELSE ks
  /\ doSearch' = DoSearch(sc, NTry, nlog, D)
  /\ phase' = IF DoSearch(sc, NTry, nlog, D) THEN "search" ELSE "decide"
  /\ evald' = FALSE
  /\ UNCHANGED <<fc, ncalls, nlog, minSeen, vMode, k, vCtr, doPoll, vPoll, inc, vHist, vTerm, vFinal>>

(* ---- _search_step_ (l.1526-1819) -------------------------------------- *)
\* search_count advances on every attempt, even with an empty set (l.1584)
SearchEmpty ==
  /\ phase = "search"
  /\ sc' = sc + 1
  /\ phase' = "decide"
  /\ UNCHANGED <<vCount, vMode, vMesh, iter, ss, spree, vFlag, vPoll, inc, vHist, vTerm, vFinal>>

SearchCandidate ==
  /\ phase = "search"
  /\ sc' = sc + 1
  /\ phase' = "searcheval"
  /\ UNCHANGED <<vCount, vMode, vMesh, iter, ss, spree, vFlag, vPoll, inc, vHist, vTerm, vFinal>>

\* exactly one evaluation; outcome failure / incremental / success.
\* deterministic default policy: move iff the value is strictly lower.
\* noisy: the decision is taken on GP estimates, so any outcome with any value.
\* v: the value the target returned; w: the value the logger credits to the point -- w = v
\* unless the point repeats a logged one under specified noise, in which case the record is
\* merged and w is the precision-weighted mean (any value)
SearchEval_(v, outcome, merged, w) ==
  /\ phase = "searcheval"
  /\ (~noisy => IF Sloppy THEN (outcome = "failure") = (v >= inc)
                 ELSE outcome = "success" => v < inc)
  /\ (~Sloppy => outcome # "incremental")   \* only sufficient improvements move the incumbent
  /\ (merged => noisy)     \* repeated point merged under specified noise
  /\ (~merged => w = v)
  /\ Called(v, ~merged)
  /\ inc' = IF outcome = "failure" THEN inc ELSE w
  /\ ss' = IF outcome = "success" THEN ss + 1 ELSE ss
  /\ phase' = "decide"
  /\ UNCHANGED <<vMode, vMesh, iter, sc, spree, vFlag, vPoll, vHist, vTerm, vFinal>>
SearchEval ==
  \E v \in Vals, outcome \in {"failure", "incremental", "success"}, merged \in BOOLEAN, w \in Vals :
     SearchEval_(v, outcome, merged, w)

(* ---- search / poll alternation (l.1247-1284) -------------------------- *)
DecideStep ==
  /\ phase = "decide"
  /\ LET d == Decide(sc, ss, spree, k, NTry, SkipPollAfterSearch,
                     MeshExpand, MeshIncr, KCap)
     IN /\ sc' = d.sc /\ ss' = d.ss
        /\ spree' = IF MeshExpand > 0 THEN d.spree % MeshExpand ELSE 0
        /\ doPoll' = d.doPoll
        /\ k' = d.k
        /\ phase' = IF d.doPoll THEN "pollbegin" ELSE "loopend"
  /\ UNCHANGED <<vCount, vMode, ks, iter, doSearch, vPoll, inc, vHist, vTerm, vFinal>>

(* ---- _poll_step_ (l.1887-2265) ---------------------------------------- *)
\* directions generated and filtered: 0..2D candidates remain.  The set is
\* only built when the loop guard lets the loop body run at all.
PollBegin_(n) ==
  /\ phase = "pollbegin"
  /\ pcount' = 0 /\ pgood' = FALSE /\ pbest' = inc
  /\ premain' = IF fc < budgetEff THEN n ELSE 0
  /\ phase' = "polleval"
  /\ UNCHANGED <<vCount, vMode, vMesh, vCtr, vFlag, inc, vHist, vTerm, vFinal>>
PollBegin == \E n \in 0 .. 2 * D : PollBegin_(n)

\* best: this point becomes the best polled point so far (poll_improvement >
\* poll_best_improvement, l.2154); suff: its improvement is sufficient.  Deterministic targets:
\* best iff strictly lower than the best so far.  Noisy targets: both are decided on GP
\* estimates, so any combination with suff => best (found by refinement checking of real
\* noisy runs: the first version moved the incumbent only on sufficient improvements).
PollEval_(v, best, suff, merged, w) ==
  /\ phase = "polleval"
  /\ PollMayEvaluate(fc, budgetEff, pcount, D, premain)
  /\ (merged => noisy)
  /\ (~merged => w = v)
  /\ Called(v, ~merged)
  /\ (suff => best)
  /\ (~noisy => (best = (v < pbest)))
  /\ pbest' = IF best THEN w ELSE pbest
  /\ pgood' = (pgood \/ suff)
  /\ pcount' = pcount + 1
  /\ premain' = premain - 1
  /\ UNCHANGED <<phase, vMode, vMesh, vCtr, vFlag, inc, vHist, vTerm, vFinal>>
PollEval ==
  \E v \in Vals, best \in BOOLEAN, suff \in BOOLEAN, merged \in BOOLEAN, w \in Vals :
     PollEval_(v, best, suff, merged, w)

\* polling stops: guard false, or (not complete_poll) early stop (l.2055-2076)
PollEnd_(stalled) ==
  /\ phase = "polleval"
  /\ \/ ~PollMayEvaluate(fc, budgetEff, pcount, D, premain)
     \/ ~CompletePoll
  /\ LET kNew == MeshAfterPoll(k, pgood, AccelMesh, AccelSteps, iter, stalled, KCap)
     IN /\ k' = kNew
        /\ ks' = SearchSizeAfterPoll(ks, kNew, pgood, GridMult, GridNum)
  \* sloppy improvement: move iff improved; otherwise only after a sufficient improvement
  /\ inc' = IF Sloppy \/ pgood THEN pbest ELSE inc
  /\ phase' = "loopend"
  /\ UNCHANGED <<vCount, vMode, vCtr, vFlag, vPoll, vHist, vTerm, vFinal>>
PollEnd == \E stalled \in BOOLEAN : PollEnd_(stalled)

(* ---- end of the loop body (l.1299-1424) ------------------------------- *)
LoopEnd_(stall, incAfter) ==
  /\ phase = "loopend"
  /\ (stall => iter > StallIters - 1)
  /\ LET c == TermConds(fc, budgetEff, iter, MaxIter, k, KTol, stall)
         fin == Finished(c)
     IN /\ finished' = fin
        /\ msg' = TermMsg(c)
        /\ IF RecordsHistory(doPoll, fin)
           THEN lastRec' = inc /\ nrec' = nrec + 1 /\ recVals' = recVals \cup {inc}
           ELSE UNCHANGED vHist
        /\ iter' = NextIter(iter, doPoll, fin)
        /\ phase' = IF fin THEN "final" ELSE "loopbegin"
        /\ np' = IF fin \/ doPoll \/ evald THEN 0
                 ELSE Min2(np + 1, NonProgressBound(NTry) + 1)
  \* noisy: after re-evaluating the history the incumbent may be swapped for a
  \* recorded iterate (l.1372-1411); deterministic: unchanged
  /\ incAfter \in (IF noisy /\ doPoll /\ iter > 0 THEN recVals \cup {inc} ELSE {inc})
  /\ inc' = incAfter
  /\ UNCHANGED <<vCount, vMode, vMesh, sc, ss, spree, vFlag, vPoll, vFinal>>
LoopEnd == \E stall \in BOOLEAN, incAfter \in Vals : LoopEnd_(stall, incAfter)

(* ---- after the loop (l.1428-1524) ------------------------------------- *)
\* noisy and at least one completed poll iteration: the returned point is
\* chosen among the recorded iterates (lowest upper quantile, l.1436-1454);
\* the final samples are taken in every noisy run
FinalBegin_(incAfter) ==
  /\ phase = "final"
  /\ phase' = IF noisy /\ nfinalEff > 0 THEN "finalsample" ELSE "result"
  /\ incAfter \in (IF noisy /\ iter > 0 THEN recVals ELSE {inc})
  /\ inc' = incAfter
  /\ UNCHANGED <<vCount, vMode, vMesh, vCtr, vFlag, vPoll, vHist, vTerm, vFinal>>
FinalBegin == \E incAfter \in Vals : FinalBegin_(incAfter)

FinalSample_(v) ==
  /\ phase = "finalsample"
  /\ nfinalDone < nfinalEff
  /\ Called(v, FALSE)
  /\ nfinalDone' = nfinalDone + 1
  /\ UNCHANGED <<phase, vMode, vMesh, vCtr, vFlag, vPoll, inc, vHist, vTerm, resVal>>
FinalSample == \E v \in Vals : FinalSample_(v)

FinalDone ==
  /\ phase = "finalsample"
  /\ nfinalDone = nfinalEff
  /\ phase' = "result"
  /\ UNCHANGED <<vCount, vMode, vMesh, vCtr, vFlag, vPoll, inc, vHist, vTerm, vFinal>>

MakeResult ==
  /\ phase = "result"
  /\ resVal' = inc
  /\ phase' = "done"
  /\ UNCHANGED <<vCount, vMode, vMesh, vCtr, vFlag, vPoll, inc, vHist, vTerm, nfinalDone>>

Done ==
  /\ phase \in {"done", "failed"}
  /\ UNCHANGED vars

Next ==
  \/ EvalX0 \/ NoiseTest \/ InitDesignBegin \/ InitDesignEval \/ InitDone
  \/ LoopBegin \/ SearchEmpty \/ SearchCandidate \/ SearchEval \/ DecideStep
  \/ PollBegin \/ PollEval \/ PollEnd \/ LoopEnd
  \/ FinalBegin \/ FinalSample \/ FinalDone \/ MakeResult
  \/ TargetFault \/ Done

Spec == Init /\ [][Next]_vars /\ WF_vars(Next)

-----------------------------------------------------------------------------
(* Properties.  Ids refer to /verif/properties.jsonl.                       *)

Terminal == phase \in {"done", "failed"}
AfterLoop == phase \in {"final", "finalsample", "result", "done"}

ASSUME Budget >= 2 /\ MaxIter >= 1 /\ NTry >= 0 /\ D >= 1

\* C03 -- budget (whenever it covers the initial design), honest counting
BudgetRespected == fc <= Budget /\ ncalls <= Budget
IterBounded     == iter <= MaxIter - 1
CountHonest     == IF phase = "failed" THEN ncalls = fc + 1 ELSE ncalls = fc
MsgTruthfulInv  ==
  AfterLoop =>
    /\ msg # ""
    /\ MsgTruthful(msg, [maxfun  |-> fc >= budgetEff,
                         maxiter |-> iter >= MaxIter - 1,
                         tolmesh |-> k < KTol,
                         tolfun  |-> iter > StallIters - 1])
NonProgressBounded == np <= NonProgressBound(NTry)
PollAtMost2D       == pcount <= 2 * D
Terminates         == <>Terminal

\* C04 -- deterministic: the incumbent is the best value ever observed
IncumbentIsMin ==
  (~noisy /\ Sloppy) =>
     /\ (phase \in {"loopbegin", "search", "decide", "pollbegin", "loopend",
                    "final", "result", "done"} => inc = minSeen)
     /\ (phase = "polleval" => pbest = minSeen)
     /\ (phase = "done" => resVal = minSeen)
IncumbentMonotone ==
  [][(~noisy /\ lastRec # -1) => lastRec' <= lastRec]_vars

\* C05 -- all reserved final samples are taken, after everything else
FinalSamplesTaken ==
  (phase = "done" /\ noisy) => nfinalDone = nfinalEff
FinalSamplesLast ==
  [][(nfinalDone' # nfinalDone) => phase = "finalsample"]_vars

\* C19 / C05 -- the value returned is that of a recorded iterate
ResultInHistory == phase = "done" => resVal \in recVals

\* C10 -- a failing target call ends the run; only valid calls are counted
NoCallAfterFault == [][phase = "failed" => UNCHANGED vars]_vars
CountOnlyValid   == phase = "failed" => fc = ncalls - 1

\* C13 -- mesh rule
MeshLeCap      == k <= KCap
MeshOnlyInPoll ==
  [][k' # k => (phase = "polleval" \/ (phase = "decide" /\ MeshExpand > 0))]_vars
MeshStep ==
  [][phase = "polleval" /\ phase' = "loopend" =>
        \/ (pgood /\ k' = Min2(k + 1, KCap))
        \/ (~pgood /\ k' = k - 1)
        \/ (~pgood /\ AccelMesh /\ iter > AccelSteps /\ k' = k - 2)]_vars
SearchMeshLeqPoll == ks <= k
TolMeshMsg        == (AfterLoop /\ msg = "tolmesh") => k < KTol

\* C18 -- a search step costs at most one target evaluation (structural:
\* "searcheval" is entered once per search and left by exactly one call)
SearchOneEval ==
  [][phase = "searcheval" => (fc' = fc + 1 \/ phase' = "failed")]_vars

\* C19 -- history is written exactly when the iteration polled or finished
HistoryCount == nrec <= iter + 1

TypeOK ==
  /\ fc \in 0 .. Budget + 1 /\ nlog \in 0 .. Budget + 1
  /\ k \in (KTol - 3) .. KCap
  /\ sc \in 0 .. Max2(NTry, 0) /\ ss \in 0 .. Max2(NTry, 0)
  /\ pcount \in 0 .. 2 * D /\ premain \in 0 .. Max2(2 * D, NInitMax)

=============================================================================
