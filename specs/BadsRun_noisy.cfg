SPECIFICATION Spec
CONSTANTS
  D = 1
  Budget = 10
  MaxIter = 4
  KTolAbs = 3
  KCap = 0
  NTry = 2
  NFinal = 2
  NInitMax = 2
  Noisy = TRUE
  AutoDetect = TRUE
  SkipPollAfterSearch = TRUE
  CompletePoll = FALSE
  AccelMesh = TRUE
  AccelSteps = 1
  StallIters = 2
  SearchLocked = TRUE
  GridMult = 2
  GridNum = 10
  MeshExpand = 0
  MeshIncr = 1
  Sloppy = TRUE
  NVals = 2
  Faults = TRUE
INVARIANT BudgetRespected
INVARIANT IterBounded
INVARIANT CountHonest
INVARIANT MsgTruthfulInv
INVARIANT NonProgressBounded
INVARIANT PollAtMost2D
INVARIANT IncumbentIsMin
INVARIANT FinalSamplesTaken
INVARIANT CountOnlyValid
INVARIANT MeshLeCap
INVARIANT SearchMeshLeqPoll
INVARIANT TolMeshMsg
INVARIANT HistoryCount
INVARIANT ResultInHistory
INVARIANT TypeOK
PROPERTY Terminates
PROPERTY IncumbentMonotone
PROPERTY FinalSamplesLast
PROPERTY NoCallAfterFault
PROPERTY MeshOnlyInPoll
PROPERTY MeshStep
PROPERTY SearchOneEval
