------------------------------ MODULE HedgeMask ------------------------------
(* evaluates Hedge!MaskValid on the masks produced by the real
   ESSearch._get_selection_idx_mask_ (one JSON record per line) *)
EXTENDS Integers, Sequences, TLC, Json, IOUtils
H == INSTANCE Hedge WITH NFuns <- 2, GammaInv <- 8, WMax <- 1, w <- <<1, 1>>, num <- <<1, 1>>
Masks == ndJsonDeserialize(IOEnv.MASK_FILE)
VARIABLE i, bad
Init == i = 1 /\ bad = {}
Next == /\ i <= Len(Masks)
        /\ bad' = IF H!MaskValid(Masks[i].mask, Masks[i].mu, Masks[i].lam) THEN bad
                  ELSE bad \cup {<<Masks[i].mu, Masks[i].lam>>}
        /\ i' = i + 1
        /\ (i = Len(Masks) => JsonSerialize(IOEnv.OUT_FILE, [n |-> Len(Masks), bad |-> bad']))
Spec == Init /\ [][Next]_<<i, bad>>
Consumed == TLCGet("stats").diameter = Len(Masks) + 1
=============================================================================
