------------------------------ MODULE OptionsMC ------------------------------
EXTENDS Options
\* four instances: dimensions 2, 3, 1 and again 2 (same dimension, different
\* overrides: the second D=2 instance must not inherit anything derived from
\* the first one's user options)
MCInst == 1 .. 4
MCDimOf == [i \in 1 .. 4 |-> IF i = 1 THEN 2 ELSE IF i = 2 THEN 3 ELSE IF i = 3 THEN 1 ELSE 2]
MCUserOf == [i \in 1 .. 4 |-> IF i = 1 THEN {"aPlain", "bDim"}
                              ELSE IF i = 2 THEN {}
                              ELSE IF i = 3 THEN {"aDim", "aDep", "bPlain"} ELSE {}]
=============================================================================
