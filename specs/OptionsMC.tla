------------------------------ MODULE OptionsMC ------------------------------
EXTENDS Options
MCInst == 1 .. 3
MCDimOf == [i \in 1 .. 3 |-> IF i = 1 THEN 2 ELSE IF i = 2 THEN 3 ELSE 1]
MCUserOf == [i \in 1 .. 3 |-> IF i = 1 THEN {"aPlain", "bDim"}
                              ELSE IF i = 2 THEN {} ELSE {"aDim", "aDep", "bPlain"}]
=============================================================================
