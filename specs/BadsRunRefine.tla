--------------------------- MODULE BadsRunRefine ---------------------------
(***************************************************************************)
(* Trace validation of ONE real pybads run against the DESIGN specification *)
(* BadsRun itself: the recorded execution must be a behaviour of BadsRun's  *)
(* own actions (this module adds no rule of its own -- every step below is  *)
(* an action of BadsRun, with its environment choice bound to the logged    *)
(* value where the log has it and left to TLC where it has not).            *)
(*                                                                         *)
(* This is the direct binding of the model-checked design to the code:      *)
(* BadsRunTrace.tla (the total, clause-naming trace specification) shares   *)
(* only the rule operators of BadsRules with the design; here the design's  *)
(* state machine is the acceptor.  A run accepted here is a behaviour of    *)
(* BadsRun, so every invariant TLC proved on BadsRun (for the constants of  *)
(* this run, see the generated cfg) holds along it.                         *)
(*                                                                         *)
(* Constants come as literals from a cfg generated per run (options of the  *)
(* run); the events are the controller-level subset of the projected trace  *)
(* (Eval, InitDone, Reserve, SearchBegin/End, PollBegin/End, LoopEnd,       *)
(* Result, Crash).  Steps of BadsRun without an event of their own          *)
(* (InitDesignBegin, LoopBegin, SearchCandidate, DecideStep, FinalBegin,    *)
(* FinalDone) are silent; each is enabled in exactly one phase and moves to *)
(* another, so at most three occur between two events.                      *)
(***************************************************************************)
EXTENDS BadsRun, Json, IOUtils, Sequences

\* Which groups of logged fields are bound to the design's variables.  All TRUE for the verdict;
\* after a rejection the driver re-runs with one group switched off at a time to learn which
\* group the deviation belongs to (mesh exponents -> C13, controller counters / termination ->
\* C03, incumbent values -> C04 / C05 / C19, call and log counts and the reserve -> C03 / C12).
CONSTANTS ChkMesh, ChkCtr, ChkVal, ChkCnt
MESH(x) == ChkMesh => x
CTR(x) == ChkCtr => x
VAL(x) == ChkVal => x
CNT(x) == ChkCnt => x

RTrace == ndJsonDeserialize(IOEnv.TRACE_FILE)
NEv == Len(RTrace)

VARIABLE l
rvars == <<vars, l>>

Ev == RTrace[l]
IsEv(n) == l <= NEv /\ Ev.e = n
Consume == l' = l + 1
Keep == l' = l

RInit == Init /\ l = 1

(* ---- silent steps ------------------------------------------------------ *)
Silent ==
  /\ l <= NEv
  /\ Keep
  /\ \/ InitDesignBegin
     \/ LoopBegin
     \/ SearchCandidate
     \/ DecideStep
     \/ (\E v \in Vals : FinalBegin_(v))
     \/ FinalDone

(* ---- target calls ------------------------------------------------------ *)
EvOk(kind) == IsEv("Eval") /\ Ev.kind = kind /\ Ev.outcome = "ok"
CallAgrees == CNT(fc' = Ev.fc /\ nlog' = Ev.nlogged)

REvalX0 == EvOk("x0") /\ EvalX0_(Ev.yR) /\ CallAgrees /\ Consume
RNoiseTest == EvOk("noisetest") /\ NoiseTest_(Ev.yR) /\ CallAgrees /\ Consume
RInitEval ==
  /\ EvOk("init")
  /\ \E merged \in BOOLEAN :
     \E w \in (IF merged THEN Vals ELSE {Min2(inc, Ev.yR)}) : InitDesignEval_(Ev.yR, merged, w)
  /\ CallAgrees /\ Consume
RSearchEval ==
  /\ EvOk("search")
  /\ \E outcome \in {"failure", "incremental", "success"}, merged \in BOOLEAN :
     \E w \in (IF merged THEN Vals ELSE {Ev.yR}) :
        SearchEval_(Ev.yR, outcome, merged, w)
  /\ CallAgrees /\ Consume
RPollEval ==
  /\ EvOk("poll")
  /\ \E best \in BOOLEAN, suff \in BOOLEAN, merged \in BOOLEAN :
     \E w \in (IF merged THEN Vals ELSE {Ev.yR}) :
        PollEval_(Ev.yR, best, suff, merged, w)
  /\ CallAgrees /\ Consume
RFinalEval == EvOk("final") /\ FinalSample_(Ev.yR) /\ CallAgrees /\ Consume
\* the target raised / returned an invalid value
RFault == IsEv("Eval") /\ Ev.outcome # "ok" /\ TargetFault /\ Consume

(* ---- events that report state (no step of the design) ------------------- *)
RInitDoneEv ==
  /\ IsEv("InitDone")
  /\ phase = "initdesign" /\ pcount = 1 /\ premain = 0
  /\ CNT(fc = Ev.fc) /\ CTR(noisy = (Ev.uhl > 0)) /\ VAL(inc = Ev.incyR)
  /\ UNCHANGED vars /\ Consume

RSearchBeginEv ==
  /\ IsEv("SearchBegin")
  /\ phase = "search"
  /\ CTR(sc = Ev.sc /\ ss = Ev.ss) /\ MESH(k = Ev.k /\ ks = Ev.ks) /\ CNT(fc = Ev.fc)
  /\ UNCHANGED vars /\ Consume

RSearchEndEv ==
  /\ IsEv("SearchEnd")
  /\ IF Ev.nev = 0
     THEN SearchEmpty /\ CTR(sc' = Ev.sc /\ ss' = Ev.ss)
     ELSE /\ phase = "decide"
          /\ CTR(sc = Ev.sc /\ ss = Ev.ss) /\ VAL(inc = Ev.incyR) /\ CNT(fc = Ev.fc)
          /\ UNCHANGED vars
  /\ Consume

(* ---- steps with an event ------------------------------------------------ *)
RReserve ==
  /\ IsEv("Reserve")
  /\ InitDone
  /\ CNT(budgetEff' = Ev.budgeteff /\ nfinalEff' = Ev.nfinaleff)
  /\ Consume

RPollBegin ==
  /\ IsEv("PollBegin")
  /\ \E n \in 0 .. 2 * D : PollBegin_(n)
  /\ MESH(k = Ev.k) /\ CTR(iter = Ev.iter) /\ CNT(fc = Ev.fc)
  /\ Consume

RPollEnd ==
  /\ IsEv("PollEnd")
  /\ PollEnd_(Ev.stalled)
  /\ MESH(pgood = Ev.good) /\ CNT(pcount = Ev.npolled)
  /\ MESH(k' = Ev.k /\ ks' = Ev.ks) /\ VAL(inc' = Ev.incyR)
  /\ Consume

RLoopEnd ==
  /\ IsEv("LoopEnd")
  /\ \E ia \in (IF ChkVal THEN {Ev.incyR} ELSE Vals) : LoopEnd_(Ev.stall, ia)
  /\ CTR(doPoll = Ev.dopoll)
  /\ CTR(finished' = Ev.finished /\ msg' = Ev.msg /\ iter' = Ev.iter)
  /\ CTR(sc = Ev.sc /\ ss = Ev.ss) /\ MESH(k = Ev.k /\ ks = Ev.ks) /\ CNT(fc = Ev.fc)
  /\ Consume

RResult ==
  /\ IsEv("Result")
  /\ MakeResult
  /\ CNT(fc = Ev.fc) /\ CTR(iter = Ev.iterations /\ msg = Ev.msg)
  /\ VAL(~noisy => resVal' = Ev.fvalR)
  /\ Consume

\* the exception of a failed target call escaped optimize()
RCrash ==
  /\ IsEv("Crash")
  /\ phase = "failed" /\ Ev.injected
  /\ UNCHANGED vars /\ Consume

RDone == l = NEv + 1 /\ UNCHANGED rvars

RNext ==
  \/ Silent
  \/ REvalX0 \/ RNoiseTest \/ RInitEval \/ RSearchEval \/ RPollEval \/ RFinalEval \/ RFault
  \/ RInitDoneEv \/ RSearchBeginEv \/ RSearchEndEv
  \/ RReserve \/ RPollBegin \/ RPollEnd \/ RLoopEnd \/ RResult \/ RCrash
  \/ RDone

RSpec == RInit /\ [][RNext]_rvars

\* furthest event reached over all explored states (register 1; -workers 1)
Track == TLCSet(1, IF TLCGet(1) > l THEN TLCGet(1) ELSE l)
ASSUME TLCSet(1, 0)
Accepted ==
  /\ PrintT(<<"REFINE_MAXL", TLCGet(1), NEv + 1>>)
  /\ TLCGet(1) = NEv + 1
=============================================================================
