SPECIFICATION Spec
CONSTANTS
  NFit = 8
  MaxFaults = 4
  NRefit = 3
  NTryFit = 10
  RemoveAfter = 1
  N0 = 6
  HasNoise = TRUE
  ShrinkNoise = TRUE
INVARIANT FitArgsConsistent
INVARIANT NeverAborts
PROPERTY RunCompletes
