----------------------------- MODULE FuncLogMC -----------------------------
EXTENDS FuncLog
\* points of a 2-D lattice: an exact repeat target and points sharing one coordinate
MCPoints == {<<0, 1>>, <<2, 1>>, <<0, 0>>, <<2, 2>>}
MCVals == {0, 3}
MCPrecs == {1, 4}
=============================================================================
