#!/bin/bash
# usage: tools_allchecks.sh <seed> [tier]  -> one line per check
SEED=${1:-0}; TIER=${2:-quick}
cd "$(dirname "$0")"
for id in $(./check --list); do
  s=$(date +%s)
  out=$(VERIF_SEED=$SEED ./check $id --tier $TIER 2>&1)
  rc=$?
  e=$(( $(date +%s) - s ))
  echo "seed=$SEED $id rc=$rc ${e}s $(echo "$out" | grep -E '^(VIOLATION|MACHINERY)' | head -1 | cut -c1-200)"
  if [ $rc -ne 0 ]; then echo "$out" | grep -E "violated clause|MACHINERY" | cut -c1-400 | head -6; fi
done
