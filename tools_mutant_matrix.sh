#!/bin/bash
# usage: tools_mutant_matrix.sh <seed>   -> for every archived seeded change, is it caught by its property's quick check?
SEED=${1:-0}
cd "$(dirname "$0")"
OUT=seeded/MATRIX_seed$SEED.txt
: > $OUT
for d in seeded/*/; do
  n=$(basename $d)
  [ -f $d/patch.diff ] || continue
  prop=$(python3 -c "import json;print(json.load(open('$d/meta.json'))['property'])")
  res=$(VERIF_SEED=$SEED ./tools_try_mutant.sh "$PWD/${d}patch.diff" $prop 2>&1)
  if echo "$res" | grep -q "^VIOLATION"; then v="CAUGHT"; else v="MISSED"; fi
  cl=$(echo "$res" | grep "violated clause" | head -2 | sed 's/  violated clause \([^ ]*\) site=\([^ ]*\).*/\1@\2/' | tr '\n' ' ')
  echo "$n $prop seed=$SEED $v $cl" | tee -a $OUT
done
