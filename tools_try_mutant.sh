#!/bin/bash
# usage: tools_try_mutant.sh <patch.diff> <check ids...>   (applies to /repo, runs checks, reverts)
P="$1"; shift
cd /repo || exit 2
if ! git apply --check "$P" 2>/dev/null; then echo "PATCH DOES NOT APPLY: $P"; git apply --check "$P"; exit 3; fi
git apply "$P"
for id in "$@"; do
  echo "--- $id with $(basename $(dirname $P))"
  (cd /verif && ./check $id --tier quick 2>&1 | grep -E "^(OK|VIOLATION|KNOWN|MACHINERY|  violated)" | cut -c1-260 | head -8)
done
git -C /repo checkout -- .
git -C /repo status --short | head -3
