#!/bin/bash
# usage: tools_try_mutant.sh <patch.diff> <check ids...>
# Applies the patch in a scratch worktree of /repo HEAD (never touches /repo itself),
# runs the checks against it through VERIF_REPO, removes the worktree.
P="$1"; shift
WT=/tmp/wt/try_$$
BASE=HEAD
M="$(dirname "$P")/meta.json"
if [ -f "$M" ]; then B=$(python3 -c "import json,sys;print(json.load(open(sys.argv[1])).get('base_commit',''))" "$M" 2>/dev/null); [ -n "$B" ] && BASE=$B; fi
git -C /repo worktree add -q --detach $WT $BASE || exit 2
if ! git -C $WT apply --check "$P" 2>/dev/null; then echo "PATCH DOES NOT APPLY: $P"; git -C /repo worktree remove --force $WT; exit 3; fi
git -C $WT apply "$P"
for id in "$@"; do
  echo "--- $id with $(basename $(dirname $P))/$(basename $P)"
  (cd /verif && VERIF_REPO=$WT ./check $id --tier ${TIER:-quick} 2>&1 | grep -E "^(OK|VIOLATION|KNOWN|MACHINERY|  violated)" | cut -c1-260 | head -8)
done
git -C /repo worktree remove --force $WT
# evidence files were rewritten from the scratch copy: restore them from the real tree later
