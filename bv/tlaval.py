"""Parser for TLA+ values as printed by TLC (state dumps, simulation traces):
integers, strings, booleans, tuples <<..>>, sets {..}, records [a |-> v, ..],
functions (k :> v @@ k2 :> v2), intervals a..b.  Returns python objects:
tuple, frozenset, dict."""
import re

_tok = re.compile(r'''\s*(<<|>>|\|->|:>|@@|\.\.|[{}\[\](),]|-?\d+|"(?:[^"\\]|\\.)*"|[A-Za-z_][A-Za-z0-9_]*)''')


def tokenize(s):
    pos = 0
    out = []
    n = len(s)
    while pos < n:
        m = _tok.match(s, pos)
        if not m:
            if s[pos:].strip() == "":
                break
            raise ValueError("cannot tokenize at %r" % s[pos:pos + 40])
        out.append(m.group(1))
        pos = m.end()
    return out


class _P:
    def __init__(self, toks):
        self.t = toks
        self.i = 0

    def peek(self):
        return self.t[self.i] if self.i < len(self.t) else None

    def next(self):
        v = self.t[self.i]
        self.i += 1
        return v

    def expect(self, x):
        v = self.next()
        if v != x:
            raise ValueError(f"expected {x} got {v}")

    def value(self):
        v = self.atom()
        # function construction k :> v @@ ...
        if self.peek() == ":>":
            d = {}
            self.next()
            d[_h(v)] = self.atom_or_paren()
            while self.peek() == "@@":
                self.next()
                k = self.atom()
                self.expect(":>")
                d[_h(k)] = self.atom_or_paren()
            return d
        if self.peek() == "..":
            self.next()
            hi = self.atom()
            return frozenset(range(v, hi + 1))
        return v

    def atom_or_paren(self):
        return self.atom()

    def atom(self):
        t = self.next()
        if t == "<<":
            items = []
            while self.peek() != ">>":
                items.append(self.value())
                if self.peek() == ",":
                    self.next()
            self.next()
            return tuple(items)
        if t == "{":
            items = []
            while self.peek() != "}":
                items.append(_h(self.value()))
                if self.peek() == ",":
                    self.next()
            self.next()
            return frozenset(items)
        if t == "[":
            d = {}
            while self.peek() != "]":
                k = self.next()
                self.expect("|->")
                d[k] = self.value()
                if self.peek() == ",":
                    self.next()
            self.next()
            return d
        if t == "(":
            v = self.value()
            self.expect(")")
            return v
        if t.startswith('"'):
            return bytes(t[1:-1], "utf-8").decode("unicode_escape")
        if t == "TRUE":
            return True
        if t == "FALSE":
            return False
        if re.fullmatch(r"-?\d+", t):
            return int(t)
        return t      # model value / identifier


def _h(v):
    """make hashable (dicts -> tuple of items)"""
    if isinstance(v, dict):
        return tuple(sorted((k, _h(x)) for k, x in v.items()))
    if isinstance(v, tuple):
        return tuple(_h(x) for x in v)
    return v


def parse(s):
    p = _P(tokenize(s))
    v = p.value()
    return v


def _parse_blocks(blocks):
    return [_finish(b.split("\n")) for b in blocks]


def parse_dump(path, procs=None):
    """Parse a `tlc -dump` file: list of dict var -> value (parallel for big dumps)."""
    with open(path) as fh:
        text = fh.read()
    blocks = re.split(r"(?m)^State \d+:.*$", text)[1:]
    if len(blocks) < 4000:
        return _parse_blocks(blocks)
    import multiprocessing as mp
    import os
    n = procs or (os.cpu_count() or 4)
    size = (len(blocks) + n * 4 - 1) // (n * 4)
    chunks = [blocks[i:i + size] for i in range(0, len(blocks), size)]
    ctx = mp.get_context("fork")
    with ctx.Pool(n) as pool:
        parts = pool.map(_parse_blocks, chunks)
    out = []
    for p in parts:
        out.extend(p)
    return out


def _finish(lines):
    text = "\n".join(l for l in lines if l.strip())
    # conjunct list  /\ var = value
    parts = re.split(r"(?m)^/\\ ", text)
    st = {}
    for part in parts:
        part = part.strip()
        if not part:
            continue
        name, _, val = part.partition(" = ")
        st[name.strip()] = parse(val.strip())
    return st


def parse_sim_trace(path):
    """Parse a file written by `tlc -simulate file=...`: returns list of
    (action name or None, state dict)."""
    out = []
    with open(path) as fh:
        text = fh.read()
    blocks = re.split(r"(?m)^STATE_\d+ ==\s*$", text)
    heads = re.findall(r"(?m)^\\\* <(\w+)[^>]*>\s*$|^\\\* (Initial predicate)", text)
    # simpler: iterate sequentially
    out = []
    action = None
    lines = text.splitlines()
    i = 0
    cur = None
    buf = []
    for ln in lines:
        m = re.match(r"^\\\* <(\w+) ", ln)
        if m:
            action = m.group(1)
            continue
        if re.match(r"^STATE_\d+ ==", ln):
            if cur is not None:
                out.append((cur, _finish(buf)))
            cur = action
            action = None
            buf = []
            continue
        if cur is not None or buf is not None:
            if ln.startswith("/\\") or ln.startswith("  ") or ln.startswith("@@") or ln.strip().startswith(("<<", "[", "{", "(")):
                buf.append(ln)
    if buf:
        out.append((cur, _finish(buf)))
    return out
