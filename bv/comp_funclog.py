"""C12 component check: specs/FuncLog.tla behaviours (exhaustive to depth 3 via
state dump, deeper via TLC simulation) replayed into a real FunctionLogger;
the whole projected log state is compared after every operation."""
import glob
import os
import shutil
from fractions import Fraction

import numpy as np

from .common import MachineryError, seed
from .tlaval import parse_dump, parse_sim_trace
from .tlc import run_tlc


def _cfg(specified, maxops, props=True):
    c = ("SPECIFICATION Spec\nCONSTANTS\n  Points <- MCPoints\n  Vals <- MCVals\n  Precs <- MCPrecs\n"
         "  Specified = %s\n  Cap0 = 2\n  MaxOps = %d\n" % ("TRUE" if specified else "FALSE", maxops))
    c += "".join("INVARIANT %s\n" % i for i in
                 ("CountsExact", "MergedIsWeightedMean", "CountsPerPoint", "UnmergedExact", "CapacityCovers"))
    if props:
        c += "PROPERTY OtherRecordsUntouched\nPROPERTY AppendOnly\n"
    return c


class Script:
    def __init__(self, specified):
        self.q = []
        self.specified = specified

    def __call__(self, x):
        v, t = self.q.pop(0)
        if self.specified:
            return float(v), 1.0 / np.sqrt(t)
        return float(v)


def make_logger(specified, with_tr):
    from pybads.function_logger import FunctionLogger
    from pybads.variable_transformer import VariableTransformer
    scr = Script(specified)
    tr = None
    if with_tr:
        D = 2
        tr = VariableTransformer(D, np.full((1, D), -8.0), np.full((1, D), 8.0),
                                 np.full((1, D), -2.0), np.full((1, D), 2.0))   # x = 2 u
    fl = FunctionLogger(scr, 2, specified, 2 if specified else 0, cache_size=2, variable_transformer=tr)
    return fl, scr


def apply_op(fl, scr, op, specified):
    kind, p, v, t = op
    u = np.array(p, dtype=float)
    if kind == "call":
        scr.q.append((v, t))
        fl(u)
    elif kind == "norec":
        scr.q.append((v, t))
        fl(u, record_duplicate_data=False)
    elif kind == "add":
        if specified:
            fl.add(u, float(v), 1.0 / np.sqrt(t))
        else:
            fl.add(u, float(v))
    else:
        raise ValueError(kind)


def compare(fl, st, specified, with_tr):
    """list of clause names where the real logger disagrees with the spec state"""
    bad = []
    log = st["log"]
    n = len(log)
    if fl.Xn != n - 1:
        return ["C12.record_count"]
    if fl.func_count != st["fc"]:
        bad.append("C12.func_count_exact")
    try:
        if int(fl.X_max_idx) != int(fl.Xn):     # the prefix that the optimiser's consumers read is the whole log
            bad.append("C12.x_max_idx_exact")
    except Exception:
        bad.append("C12.x_max_idx_exact")
    if fl.cache_count != st["cc"]:
        bad.append("C12.cache_count_exact")
    lens = {fl.X.shape[0], fl.X_orig.shape[0], fl.Y.shape[0], fl.Y_orig.shape[0], fl.n_evals.shape[0],
            fl.X_flag.shape[0], fl.fun_eval_time.shape[0]}
    if specified:
        lens.add(fl.S.shape[0])
    if len(lens) != 1:
        bad.append("C12.arrays_same_length")
    elif lens.pop() != st["cap"]:
        bad.append("C12.capacity_growth_rule")
    for i, r in enumerate(log):
        x = np.array(r["x"], dtype=float)
        if not np.array_equal(fl.X[i], x):
            bad.append("C12.record_point")
        xo = x * 2.0 if with_tr else x
        if not np.allclose(fl.X_orig[i], xo, rtol=0, atol=1e-12):
            bad.append("C12.orig_internal_correspond")
        y = Fraction(r["num"], r["den"])
        if not np.isclose(float(fl.Y[i].item()), float(y), rtol=1e-12, atol=1e-12):
            bad.append("C12.record_value")
        if specified:
            s_want = 1.0 / np.sqrt(r["tau"])
            if not np.isclose(float(fl.S[i].item()), s_want, rtol=1e-12):
                bad.append("C12.record_sd")
        nv = float(np.asarray(fl.n_evals[i]).ravel()[0])
        if not (np.isfinite(nv) and int(nv) == r["n"]):
            bad.append("C12.nevals_exact")
        if not bool(fl.X_flag[i]):
            bad.append("C12.record_flag")
    # rows beyond the last record are untouched
    if fl.X.shape[0] > n:
        if not (np.all(np.isnan(fl.X[n:])) and np.all(np.isnan(fl.Y[n:])) and not np.any(fl.X_flag[n:])
                and np.all(fl.n_evals[n:] == 0)):
            bad.append("C12.unused_rows_untouched")
    return sorted(set(bad))


def replay_hist(hist, states_by_hist, specified, with_tr, verdict, counters):
    fl, scr = make_logger(specified, with_tr)
    for k, op in enumerate(hist):
        try:
            apply_op(fl, scr, op, specified)
        except Exception as e:
            verdict.violation("C12.operation_raises", site=f"FuncLog:{op[0]}",
                              where=f"hist={hist[:k + 1]} specified={specified} tr={with_tr}",
                              detail={"error": repr(e)[:200]})
            return
        st = states_by_hist.get(tuple(hist[:k + 1]))
        if st is None:
            continue
        counters["compared"] += 1
        try:
            clauses = compare(fl, st, specified, with_tr)
        except Exception as e:      # the logger's state cannot even be read as a log: a violation, not a harness failure
            verdict.violation("C12.log_state_malformed", site=f"FuncLog:{op[0]}",
                              where=f"hist={hist[:k + 1]} specified={specified} tr={with_tr}",
                              detail={"error": repr(e)[:200]})
            return
        for clause in clauses:
            verdict.violation(clause, site=f"FuncLog:{op[0]}",
                              where=f"hist={hist[:k + 1]} specified={specified} tr={with_tr}",
                              detail={"spec_log": st["log"], "Xn": fl.Xn,
                                      "Y": fl.Y[: fl.Xn + 1].ravel().tolist(),
                                      "n_evals": fl.n_evals[: fl.Xn + 1].ravel().tolist()})


class _Collect:
    """stand-in for Verdict inside worker processes"""
    def __init__(self):
        self.v = []

    def violation(self, clause, site=None, where=None, detail=None):
        if len(self.v) < 50:
            self.v.append((clause, site, where, detail))


_G = {}


def _worker(chunk):
    col = _Collect()
    cnt = {"compared": 0}
    for (h, with_tr) in chunk:
        replay_hist(h, _G["by_hist"], _G["specified"], with_tr, col, cnt)
    return col.v, cnt["compared"]


def _par_replay(jobs, by_hist, specified, verdict, counters):
    import multiprocessing as mp
    _G["by_hist"] = by_hist
    _G["specified"] = specified
    n = os.cpu_count() or 4
    chunks = [jobs[i::n * 4] for i in range(n * 4)]
    ctx = mp.get_context("fork")
    with ctx.Pool(n) as pool:
        for vs, c in pool.imap_unordered(_worker, [c for c in chunks if c]):
            counters["compared"] += c
            for (clause, site, where, detail) in vs:
                verdict.violation(clause, site=site, where=where, detail=detail)


def _norm_hist(h):
    return tuple((op[0], tuple(op[1]), op[2], op[3]) for op in h)


def run(verdict, tier):
    total_states = 0
    counters = {"compared": 0}
    n_hist = 0
    samples = []
    depth = 3
    for specified in (True, False):
        r = run_tlc("FuncLogMC", cfg=_cfg(specified, depth), timeout=1200, dump="out", keep=True)
        if not r.ok:
            if r.violated:
                verdict.violation("C12.design_model:" + ",".join(r.violated), site="FuncLog.tla",
                                  where=f"specified={specified}")
                shutil.rmtree(r.workdir, ignore_errors=True)
                continue
            raise MachineryError("FuncLog TLC failed: %s\n%s" % (r.summary(), r.output[-1500:]))
        states = parse_dump(os.path.join(r.workdir, "out.dump"))
        shutil.rmtree(r.workdir, ignore_errors=True)
        total_states += r.distinct_states
        by_hist = {_norm_hist(st["hist"]): st for st in states}
        leaves = [h for h in by_hist if len(h) == depth]
        # quick: every leaf without transformer for Specified, stratified otherwise
        jobs = []
        for li, h in enumerate(leaves):
            for with_tr in (False, True):
                if tier == "quick" and (with_tr and li % 3):
                    continue
                jobs.append((h, with_tr))
            if len(samples) < 2 and li == 777:
                samples.append({"hist": [list(map(str, op)) for op in h], "specified": specified,
                                "spec_final_log": by_hist[h]["log"]})
        n_hist += len(jobs)
        _par_replay(jobs, by_hist, specified, verdict, counters)
        # deeper behaviours by simulation
        nsim = 300 if tier == "quick" else 8000
        sd = 1 + seed()
        rs = run_tlc("FuncLogMC", cfg=_cfg(specified, 12, props=False), timeout=900, workers=1,
                     simulate=f"file=sim/tr,num={nsim}", depth=14, seed=sd, keep=True,
                     extra_files=())
        # (TLC needs the directory to exist)
        files = sorted(glob.glob(os.path.join(rs.workdir, "sim", "tr*")))
        if not files:
            # create dir and rerun once
            shutil.rmtree(rs.workdir, ignore_errors=True)
            raise MachineryError("FuncLog simulation produced no trace files: %s" % rs.output[-800:])
        total_states += rs.states_generated
        for fpath in files:
            tr = parse_sim_trace(fpath)
            if not tr:
                continue
            sts = [st for (_, st) in tr]
            by = {_norm_hist(st["hist"]): st for st in sts}
            h = max(by, key=len)
            for with_tr in ((False, True) if tier == "thorough" else (bool(len(h) % 2),)):
                n_hist += 1
                replay_hist(h, by, specified, with_tr, verdict, counters)
            if len(samples) < 4:
                samples.append({"hist": [list(map(str, op)) for op in h], "specified": specified,
                                "spec_final_log": by[h]["log"]})
        shutil.rmtree(rs.workdir, ignore_errors=True)
    verdict.coverage.update({
        "funclog_states": total_states, "funclog_histories_replayed": n_hist,
        "funclog_state_comparisons": counters["compared"], "funclog_samples": samples,
    })
    return total_states, n_hist
