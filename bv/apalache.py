"""Inductive-invariant check of the controller skeleton with Apalache
(specs/BadsCtlApa.tla): unbounded budget / max_iter / search_n_try / dimension."""
import hashlib
import os
import pickle
import shutil
import subprocess
import time

from .common import CACHE, MachineryError
from .tlc import SPECS

OBLIGATIONS = [
    ("base: Init => IndInv", ["--init=Init", "--inv=IndInv", "--length=0"]),
    ("step: IndInv /\\ Next => IndInv'", ["--init=IndInvInit", "--inv=IndInv", "--length=1"]),
    ("IndInv => Safety (BudgetRespected incl. the noisy reserve, IterBounded, MeshLeOne, SearchMeshLeqPoll, FinalSamplesTaken)",
     ["--init=IndInvInit", "--inv=Safety", "--length=0"]),
]


def inductive_controller(timeout=600):
    spec = os.path.join(SPECS, "BadsCtlApa.tla")
    with open(spec, "rb") as fh:
        key = hashlib.sha256(fh.read()).hexdigest()[:16]
    d = os.path.join(CACHE, "design")
    os.makedirs(d, exist_ok=True)
    p = os.path.join(d, f"apalache-{key}.pkl")
    if os.path.exists(p):
        with open(p, "rb") as fh:
            return pickle.load(fh)
    exe = shutil.which("apalache-mc")
    if exe is None:
        raise MachineryError("apalache-mc not found on PATH")
    out = {"obligations": [], "ok": True, "wall_s": 0.0}
    t0 = time.time()
    for name, args in OBLIGATIONS:
        odir = os.path.join(CACHE, "apa", key + "-" + str(len(out["obligations"])))
        os.makedirs(odir, exist_ok=True)
        cmd = [exe, "check", "--cinit=CInit"] + args + ["--out-dir=" + odir, "BadsCtlApa.tla"]
        try:
            r = subprocess.run(cmd, cwd=SPECS, capture_output=True, text=True, timeout=timeout)
        except subprocess.TimeoutExpired:
            raise MachineryError("apalache timed out on: " + name)
        ok = "EXITCODE: OK" in r.stdout and "The outcome is: NoError" in r.stdout
        if not ok and "violated" not in r.stdout and "Checker has found an error" not in r.stdout:
            raise MachineryError("apalache failed on %s:\n%s" % (name, (r.stdout + r.stderr)[-1500:]))
        out["obligations"].append({"name": name, "discharged": ok})
        out["ok"] = out["ok"] and ok
        shutil.rmtree(odir, ignore_errors=True)
    out["wall_s"] = round(time.time() - t0, 1)
    if out["ok"]:
        with open(p, "wb") as fh:
            pickle.dump(out, fh)
    return out


def abstraction_covers():
    """Consistency of the hand-kept Apalache skeleton with the main design spec: on the same
    small constants every controller state (fc, k, ks, iter, sc, ss) at the top of the loop that
    is reachable in BadsRun.tla (deterministic mode) is reachable in BadsCtlApa.tla."""
    from .tlc import run_tlc
    from .tlaval import parse_dump
    keyf = hashlib.sha256()
    for f in ("BadsCtlApa.tla", "BadsCtlApaMC.tla", "BadsCtlApaMC.cfg", "BadsRun.tla", "BadsRules.tla", "BadsRun_xcheck.cfg"):
        with open(os.path.join(SPECS, f), "rb") as fh:
            keyf.update(fh.read())
    p = os.path.join(CACHE, "design", "xcheck-" + keyf.hexdigest()[:16] + ".pkl")
    os.makedirs(os.path.dirname(p), exist_ok=True)
    if os.path.exists(p):
        with open(p, "rb") as fh:
            return pickle.load(fh)
    ra = run_tlc("BadsCtlApaMC", timeout=600, dump="out", keep=True, deadlock=False)
    rb = run_tlc("BadsRun", cfg="BadsRun_xcheck.cfg", timeout=600, dump="out", keep=True)
    if not ra.ok or not rb.ok:
        raise MachineryError("cross-check TLC runs failed: %s %s" % (ra.summary(), rb.summary()))
    sa = parse_dump(os.path.join(ra.workdir, "out.dump"))
    sb = parse_dump(os.path.join(rb.workdir, "out.dump"))
    shutil.rmtree(ra.workdir, ignore_errors=True)
    shutil.rmtree(rb.workdir, ignore_errors=True)

    def tup(s):
        return (s["fc"], s["k"], s["ks"], s["iter"], s["sc"], s["ss"])
    A = {tup(s) for s in sa if s["phase"] == "loopbegin"}
    B = {tup(s) for s in sb if s["phase"] == "loopbegin"}
    out = {"skeleton_loopbegin_states": len(A), "badsrun_loopbegin_states": len(B),
           "covered": B <= A, "missing": sorted(B - A)[:5]}
    if out["covered"]:
        with open(p, "wb") as fh:
            pickle.dump(out, fh)
    return out
