"""Named scenario panels (deterministic functions of VERIF_SEED and tier).

Each panel is validated once per source tree (cache in runpanel) and shared
by the property checks that need it."""
import math

from . import scenarios as S
from .common import seed as _seed

INF = "inf"
NINF = "-inf"


def _sc(pid, D, geom, target, noise=None, cons=None, options=None, seed=0, faults=None, tags=()):
    sc = {"id": pid, "D": D, "geom": geom, "target": target,
          "noise": noise or {"mode": "det"}, "cons": cons,
          "options": dict(options or {}), "seed": seed, "tags": list(tags)}
    if faults:
        sc["faults"] = faults
    return sc


def _quad(D, r, lo=-4.0, hi=4.0, cond=100.0, mn=None):
    if mn is None:
        mn = [round(r.uniform(lo, hi), 3) for _ in range(D)]
    eig = [1.0] + [round(math.exp(r.uniform(0, math.log(cond))), 3) for _ in range(D - 1)]
    return {"family": "quad", "min": mn, "eig": eig, "rot_seed": r.randrange(10 ** 6)}


# --------------------------------------------------------------------------
def core_det(tier):
    """deterministic targets over bound geometries / landscapes / options"""
    sd = _seed()
    r = S.rnd(("core_det", sd))
    out = []
    n = 0

    def add(D, geom, target, options=None, tags=()):
        nonlocal n
        o = {"max_fun_evals": r.choice([60, 80, 100, 120])}
        o.update(options or {})
        out.append(_sc(f"cd{n}", D, geom, target, options=o, seed=r.randrange(10 ** 6), tags=tags))
        n += 1

    reps = 1 if tier == "quick" else 12
    for rep in range(reps):
        # symmetric boxes, optimum inside
        for D in (1, 2, 3):
            x0 = [round(r.uniform(-4, 4), 3) for _ in range(D)]
            add(D, S.box_geom(D, x0=x0), _quad(D, r), tags=["inside"])
        # optimum outside the box: one-sided pressure, corners
        add(2, S.box_geom(2, -5, 5, -3, 3, x0=[1.0, -1.0]), _quad(2, r, mn=[7.5, -8.0]), tags=["outside"])
        add(3, S.box_geom(3, -5, 5, -3, 3, x0=[1.0, -1.0, 0.5]), _quad(3, r, mn=[9.0, 0.3, -6.5]), tags=["outside"])
        add(1, S.box_geom(1, 0, 1, 0.1, 0.9, x0=[0.5]), {"family": "linear", "w": [1.0]}, tags=["outside"])
        # optimum exactly on the boundary
        add(2, S.box_geom(2, -5, 5, -3, 3, x0=[0.0, 0.0]), _quad(2, r, mn=[5.0, 1.0]), tags=["onbound"])
        # log-transformed positive-decade bounds
        g = {"lb": [1e-3, 1e-2], "ub": [1e3, 1e2], "plb": [1e-2, 1e-1], "pub": [1e2, 1e1], "x0": [1.0, 2.0]}
        add(2, g, {"family": "logquad", "min": [30.0, 0.5]}, tags=["log", "inside"])
        add(2, g, {"family": "logquad", "min": [5e4, 1e-4]}, tags=["log", "outside"])
        # mixed log/linear, optimum beyond the log variable's upper bound
        g = {"lb": [1e-3, -5], "ub": [100, 5], "plb": [1e-2, -2], "pub": [10, 2], "x0": [1.0, 1.0]}
        add(2, g, {"family": "quad", "min": [500.0, 9.0], "eig": [1.0, 3.0], "rot_seed": 1}, tags=["mixedlog", "outside"])
        add(2, g, {"family": "quad", "min": [-3.0, -9.0], "eig": [1.0, 3.0], "rot_seed": 2}, tags=["mixedlog", "outside"])
        # fully unbounded
        g = {"lb": None, "ub": None, "plb": [-3, -3], "pub": [3, 3], "x0": [2.0, -2.5]}
        add(2, g, _quad(2, r, mn=[6.0, -7.0]), tags=["unbounded"])
        g = {"lb": [NINF, NINF], "ub": [INF, INF], "plb": [-1, -1], "pub": [1, 1], "x0": None}
        add(2, g, _quad(2, r, mn=[0.3, -0.2]), tags=["unbounded", "nox0"])
        # bounded and unbounded coordinates in one problem, optimum beyond the finite bound
        g = {"lb": [NINF, -2.0], "ub": [INF, 2.0], "plb": [-3, -1], "pub": [3, 1], "x0": [1.0, 0.5]}
        add(2, g, _quad(2, r, mn=[2.0, 5.0]), tags=["mixed_unbounded", "outside"])
        g = {"lb": [-4.0, NINF, NINF], "ub": [4.0, INF, INF], "plb": [-2, -2, -2], "pub": [2, 2, 2], "x0": [0.5, 0.5, 0.5]}
        add(3, g, _quad(3, r, mn=[-7.0, 1.0, -1.0]), tags=["mixed_unbounded", "outside"])
        # tight box: plausible = hard
        g = {"lb": [-2, -2], "ub": [2, 2], "plb": [-2, -2], "pub": [2, 2], "x0": [0.5, 0.5]}
        add(2, g, _quad(2, r, mn=[3.0, 1.0]), tags=["tight", "outside"])
        # x0 on a bound / x0 absent
        add(2, S.box_geom(2, -5, 5, -3, 3, x0=[5.0, -5.0]), _quad(2, r, mn=[4.0, -4.5]), tags=["x0onbound"])
        add(2, S.box_geom(2, -5, 5, -3, 3, x0=None), _quad(2, r), tags=["nox0"])
        # x0 just inside the effective upper bound of a log-transformed coordinate: in internal coordinates
        # it is within half a search-mesh step of the bound, so the mesh-snapped start may have to be nudged back
        for j in range(8 if tier == "quick" else 14):
            # rejection-sample until the snapped start really lies beyond the internal upper bound
            for _try in range(400):
                frac = r.uniform(0.9981, 0.99899)
                lbv, ubv = 1e-3 * r.choice([1, 3, 0.2]), r.choice([1000.0, 2500.0, 640.0, 87.0]) * r.uniform(0.8, 1.2)
                plv, puv = lbv * r.choice([30, 3000, 700]), ubv * r.choice([0.7, 0.05, 0.31])
                x0v = lbv + frac * (ubv - lbv)
                # the constructor moves plausible bounds inside the 0.1% margin of the hard box
                ple = max(plv, lbv + 1e-3 * (ubv - lbv))
                pue = min(puv, ubv - 1e-3 * (ubv - lbv))
                mu_, ga_ = 0.5 * (math.log(ple) + math.log(pue)), 0.5 * (math.log(pue) - math.log(ple))
                u0_ = (math.log(x0v) - mu_) / ga_
                mesh_ = 2.0 ** -10
                if round(u0_ / mesh_) * mesh_ > (math.log(ubv) - mu_) / ga_ and j % 4 != 3:
                    break
                if j % 4 == 3:      # every fourth scenario: any alignment
                    break
            two = (j % 3 == 0)
            add(2 if two else 1,
                {"lb": [lbv] + ([-4] if two else []), "ub": [ubv] + ([4] if two else []),
                 "plb": [plv] + ([-1] if two else []), "pub": [puv] + ([1] if two else []),
                 "x0": [x0v] + ([0.3] if two else [])},
                {"family": "logquad", "min": [ubv * 5] + ([1.0] if two else [])},
                {"max_fun_evals": 30}, tags=["x0nearbound", "log"])
        for j in range(2):
            lbv, ubv = -r.choice([3.0, 7.3, 11.1]), r.choice([2.9, 6.7, 13.3])
            frac = r.choice([0.9982, 0.9987, 0.99895])
            x0v = (lbv + frac * (ubv - lbv)) if j == 0 else (ubv - frac * (ubv - lbv))
            add(1, {"lb": [lbv], "ub": [ubv], "plb": [lbv * 0.31], "pub": [ubv * 0.47], "x0": [x0v]},
                {"family": "linear", "w": [-1.0 if j == 0 else 1.0]}, {"max_fun_evals": 30}, tags=["x0nearbound", "lin"])
        # hard bounds whose internal image lies exactly on search-mesh nodes (-3/+3, -2/+2), optimum outside: candidates
        # are pushed onto the bound itself, where the inverse transform is inexact by an ulp and only its final
        # clamp keeps the point inside the box
        g = {"lb": [0.01, 0.01], "ub": [10, 10], "plb": [0.1, 0.1], "pub": [1, 1], "x0": [0.5, 0.4]}
        add(2, g, {"family": "logquad", "min": [50.0, 0.001]}, {"max_fun_evals": 70}, tags=["log", "outside", "bound_on_mesh"])
        g = {"lb": [0.2, 0.2], "ub": [1.4, 1.4], "plb": [0.5, 0.5], "pub": [1.1, 1.1], "x0": [0.8, 0.9]}
        add(2, g, _quad(2, r, mn=[3.0, -1.0], cond=3.0), {"max_fun_evals": 70}, tags=["outside", "bound_on_mesh"])
        g = {"lb": [0.01, 0.2, -6.0], "ub": [10, 1.4, 6.0], "plb": [0.1, 0.5, -2.0], "pub": [1, 1.1, 2.0], "x0": [0.5, 0.8, 1.0]}
        add(3, g, {"family": "quad", "min": [40.0, 0.05, 9.0], "eig": [1.0, 2.0, 0.5], "rot_seed": 3}, {"max_fun_evals": 90},
            tags=["mixedlog", "outside", "bound_on_mesh"])
        # widths from tiny to huge
        add(1, {"lb": [-1e-6], "ub": [1e-6], "plb": [-5e-7], "pub": [5e-7], "x0": [1e-7]},
            {"family": "quad", "min": [3e-7], "eig": [1e12], "rot_seed": 0}, tags=["tinywidth"])
        add(2, {"lb": [-1e6, -1e6], "ub": [1e6, 1e6], "plb": [-1e5, -1e5], "pub": [1e5, 1e5], "x0": [5e4, -2e4]},
            {"family": "quad", "min": [1.2e4, 7e3], "eig": [1e-8, 3e-8], "rot_seed": 4}, tags=["hugewidth"])
        # non-smooth, plateaus with ties
        add(2, S.box_geom(2, x0=[2.0, 2.0]), {"family": "absval", "min": [0.7, -1.3]}, tags=["nonsmooth"])
        add(2, S.box_geom(2, x0=[2.5, -1.5]), {"family": "plateau", "min": [0.4, 0.6], "q": 4.0},
            {"max_fun_evals": 120}, tags=["plateau"])
        add(2, S.box_geom(2, x0=[2.5, -1.5]), {"family": "plateau", "min": [0.4, 0.6], "q": 200.0},
            {"max_fun_evals": 150, "complete_poll": True}, tags=["plateau", "complete_poll"])
        add(2, S.box_geom(2, x0=[1.0, 1.0]), {"family": "const", "c": 2.0}, {"max_fun_evals": 50}, tags=["plateau", "const"])
        add(2, S.box_geom(2, -5, 5, -2, 2, x0=[-1.0, 1.5]), {"family": "rosen"}, {"max_fun_evals": 150}, tags=["rosen"])
        # option settings
        add(2, S.box_geom(2, x0=[3.0, 3.0]), _quad(2, r), {"accelerate_mesh": False, "max_fun_evals": 150}, tags=["noaccel"])
        add(3, S.box_geom(3, x0=[3.0, 3.0, -2.0]), {"family": "quad", "min": [0.1, 0.2, 0.3], "eig": [1, 1, 1], "rot_seed": 0},
            {"accelerate_mesh": False, "max_fun_evals": 200}, tags=["noaccel"])
        add(2, S.box_geom(2, x0=[3.0, 3.0]), _quad(2, r), {"complete_poll": True}, tags=["complete_poll"])
        # polls with several improving points (poll-driven runs, complete polling)
        add(3, S.box_geom(3, x0=[3.0, -3.0, 2.0]), _quad(3, r, cond=3.0), {"complete_poll": True, "search_n_try": 0, "max_fun_evals": 90},
            tags=["complete_poll", "ntry0", "multi_improve"])
        add(2, S.box_geom(2, x0=[3.5, -2.5]), {"family": "absval", "min": [0.3, 0.2], "w": [1.0, 0.7]},
            {"complete_poll": True, "search_n_try": 0, "max_fun_evals": 70}, tags=["complete_poll", "ntry0", "multi_improve"])
        add(4, S.box_geom(4, x0=[3.0, -3.0, 2.0, -1.0]), _quad(4, r, cond=2.0), {"complete_poll": True, "search_n_try": 1, "max_fun_evals": 120},
            tags=["complete_poll", "ntry1", "multi_improve"])
        # more than two ES generations / smaller populations (non-default search options)
        add(2, S.box_geom(2, x0=[3.0, -2.0]), _quad(2, r), {"n_search_iter": 3, "max_fun_evals": 60}, tags=["nsearchiter3"])
        add(3, S.box_geom(3, x0=[3.0, -2.0, 1.0]), _quad(3, r), {"n_search_iter": 4, "n_search": 2 ** 10, "max_fun_evals": 70},
            tags=["nsearchiter4"])
        add(2, S.box_geom(2, -5, 5, -3, 3, x0=[1.0, -1.0]), _quad(2, r, mn=[7.5, -8.0]), {"n_search_iter": 3, "n_search": 2 ** 9, "max_fun_evals": 60},
            tags=["nsearchiter3", "outside"])
        # rippled bowls: the GP cannot rank the poll points, so polls see improving
        # points in arbitrary order (several improving points per poll)
        for j in range(6 if tier == "quick" else 10):
            Dj = 3 if j % 2 == 0 else 2
            add(Dj, S.box_geom(Dj, x0=[3.0, -3.0, 2.0][:Dj]),
                {"family": "ripple", "min": [0.3, 0.2, -0.4][:Dj], "amp": 2.0, "freq": 37.0 + j + r.randrange(5)},
                {"complete_poll": True, "search_n_try": 0, "max_fun_evals": 70}, tags=["ripple", "complete_poll", "ntry0"])
        add(2, S.box_geom(2, x0=[-3.0, 1.0]), _quad(2, r), {"tol_mesh": 3e-4, "max_fun_evals": 200}, tags=["tolmesh"])
        add(2, S.box_geom(2, x0=[-3.0, 1.0]), _quad(2, r), {"tol_mesh": 1e-2, "max_fun_evals": 200}, tags=["tolmesh"])
        add(1, S.box_geom(1, x0=[-3.0]), _quad(1, r), {"tol_mesh": 1e-3, "max_fun_evals": 150}, tags=["tolmesh"])
        for mi in (1, 2, 4):
            add(2, S.box_geom(2, x0=[2.0, -3.0]), _quad(2, r), {"max_iter": mi}, tags=["maxiter"])
        add(2, S.box_geom(2, x0=[2.0, -3.0]), _quad(2, r), {"max_iter": 3, "search_n_try": 1}, tags=["maxiter", "ntry1"])
        add(2, S.box_geom(2, x0=[2.0, -3.0]), _quad(2, r), {"max_iter": 1, "search_n_try": 1}, tags=["maxiter", "ntry1"])
        add(2, S.box_geom(2, x0=[2.0, -3.0]), _quad(2, r), {"search_n_try": 0, "max_fun_evals": 50}, tags=["ntry0"])
        add(2, S.box_geom(2, x0=[2.0, -3.0]), _quad(2, r), {"search_n_try": 2, "skip_poll_after_search": False}, tags=["noskip"])
        add(2, S.box_geom(2, x0=[2.0, -3.0]), _quad(2, r), {"search_size_locked": False}, tags=["unlocked"])
        # unlocked search mesh without mesh acceleration, run down to a small mesh
        add(2, S.box_geom(2, x0=[2.0, -3.0]), _quad(2, r, cond=3.0),
            {"search_size_locked": False, "accelerate_mesh": False, "tol_fun": 1e-12, "tol_stall_iters": 60,
             "tol_mesh": 1e-5, "max_fun_evals": 260}, tags=["unlocked", "noaccel", "smallmesh"])
        add(1, S.box_geom(1, x0=[2.0]), _quad(1, r),
            {"search_size_locked": False, "tol_fun": 1e-12, "tol_stall_iters": 60, "tol_mesh": 1e-5, "max_fun_evals": 200},
            tags=["unlocked", "smallmesh"])
        add(2, S.box_geom(2, x0=[2.0, -3.0]), _quad(2, r), {"cache_size": 8}, tags=["smallcache"])
        # budgets just above the initial design
        for b in (7, 8, 9, 12):
            add(2, S.box_geom(2, x0=[2.0, -3.0]), _quad(2, r), {"max_fun_evals": b}, tags=["budget"])
        add(3, S.box_geom(3, x0=[2.0, -3.0, 1.0]), _quad(3, r), {"max_fun_evals": 11}, tags=["budget"])
        # searching right next to a face of a box whose bounds are not multiples of any search-mesh size, through
        # refine / expand cycles of the mesh
        for j in range(3 if tier == "quick" else 8):
            g = {"lb": [-1.0, -1.0, -1.0], "ub": [2.0, 2.0, 2.0], "plb": [-0.5, -0.5, -0.5], "pub": [1.3, 1.3, 1.3],
                 "x0": [0.9, -0.6, 1.1]}
            add(3, g, {"family": "facevalley", "c": 1.6}, {"max_fun_evals": 170}, tags=["facevalley", "outside"])
        # a user-supplied annealing schedule for the search acquisition function
        add(2, S.box_geom(2, x0=[3.0, -2.0]), _quad(2, r), {"_search_acq_schedule": "asym", "max_fun_evals": 60}, tags=["acq_schedule"])
        add(3, S.box_geom(3, x0=[3.0, -2.0, 1.0]), _quad(3, r), {"_search_acq_schedule": "asym", "max_fun_evals": 70}, tags=["acq_schedule"])
        # a target explicitly declared deterministic
        add(2, S.box_geom(2, x0=[3.0, -2.0]), {"family": "absval", "min": [0.7, -1.3]}, {"uncertainty_handling": False, "max_fun_evals": 60},
            tags=["declared_det"])
        # poll vectors not rescaled by the GP length scales, with an unbounded coordinate
        g = {"lb": [NINF, -2.0], "ub": [INF, 2.0], "plb": [-3, -1], "pub": [3, 1], "x0": [1.0, 0.5]}
        add(2, g, _quad(2, r, mn=[2.0, 5.0]), {"gp_rescale_poll": 0, "max_fun_evals": 60}, tags=["mixed_unbounded", "gp_rescale_poll0"])
        g = {"lb": None, "ub": None, "plb": [-3, -3, -3], "pub": [3, 3, 3], "x0": [2.0, -2.5, 1.0]}
        add(3, g, _quad(3, r, mn=[1.0, -1.0, 0.5]), {"gp_rescale_poll": 0, "max_fun_evals": 70}, tags=["unbounded", "gp_rescale_poll0"])
        # the valid seed 0 (a falsy value)
        add(2, S.box_geom(2, x0=None), _quad(2, r), {"max_fun_evals": 40}, tags=["seed0", "nox0"])
        out[-1]["seed"] = 0
        # a cache smaller than the initial design with a non-identity transform, warm start at the minimiser: the
        # first incumbent is logged before the cache grows and is never improved
        add(3, {"lb": [-2, -1, -3], "ub": [6, 9, 5], "plb": [-1, 0, -2], "pub": [4, 6, 3], "x0": [2.0, 3.0, 1.0]},
            {"family": "quad", "min": [2.0, 3.0, 1.0], "eig": [1.0, 2.0, 3.0], "rot_seed": 1},
            {"cache_size": 3, "max_fun_evals": 40}, tags=["smallcache", "warmstart"])
        add(2, {"lb": [1e-2, 1e-2], "ub": [1e2, 1e2], "plb": [1e-1, 1e-1], "pub": [1e1, 1e1], "x0": [3.0, 0.5]},
            {"family": "logquad", "min": [3.0, 0.5]}, {"cache_size": 2, "fun_eval_start": 6, "max_fun_evals": 30},
            tags=["smallcache", "warmstart", "log"])
        # deterministic target with an explicit base noise magnitude (documented option, used for GP regularisation)
        add(2, S.box_geom(2, x0=[3.0, -2.0]), _quad(2, r), {"noise_size": 1e-2, "max_fun_evals": 70}, tags=["det_noise_size"])
        add(1, S.box_geom(1, x0=[-3.0]), _quad(1, r), {"noise_size": 1e-3, "max_fun_evals": 50}, tags=["det_noise_size"])
        if tier == "thorough":
            for D in (4, 5):
                x0 = [round(r.uniform(-4, 4), 3) for _ in range(D)]
                add(D, S.box_geom(D, x0=x0), _quad(D, r), {"max_fun_evals": 250}, tags=["inside", "highD"])
            add(2, S.box_geom(2, x0=[3.0, -3.0]), _quad(2, r), {"max_fun_evals": 1000}, tags=["default_budget"])
    return out


# --------------------------------------------------------------------------
def core_noisy(tier):
    sd = _seed()
    r = S.rnd(("core_noisy", sd))
    out = []
    n = 0

    def add(D, geom, target, noise, options=None, tags=()):
        nonlocal n
        o = {"max_fun_evals": r.choice([70, 90, 110])}
        o.update(options or {})
        out.append(_sc(f"cn{n}", D, geom, target, noise=noise, options=o, seed=r.randrange(10 ** 6), tags=tags))
        n += 1

    reps = 1 if tier == "quick" else 10
    for rep in range(reps):
        for mode in ("auto", "declared", "specified"):
            for nf in (0, 1, 3, 10):
                D = r.choice([1, 2, 2, 3])
                x0 = [round(r.uniform(-3, 3), 3) for _ in range(D)]
                sigma = r.choice([0.3, 1.0, 2.0])
                noise = {"mode": mode, "sigma": sigma, "sd_kind": "hetero" if mode == "specified" else "const"}
                add(D, S.box_geom(D, x0=x0), _quad(D, r, cond=10.0), noise,
                    {"noise_final_samples": nf}, tags=[mode, f"nf{nf}"])
        # tiny noise: still stochastic by the documented rule
        add(2, S.box_geom(2, x0=[1.0, 1.0]), _quad(2, r, cond=4.0), {"mode": "auto", "sigma": 1e-4},
            {"noise_final_samples": 5}, tags=["auto", "tinynoise"])
        add(1, S.box_geom(1, x0=[1.0]), _quad(1, r), {"mode": "auto", "sigma": 1e-9},
            {"noise_final_samples": 3}, tags=["auto", "tinynoise"])
        # log geometry + noise
        g = {"lb": [1e-3, 1e-2], "ub": [1e3, 1e2], "plb": [1e-2, 1e-1], "pub": [1e2, 1e1], "x0": [1.0, 2.0]}
        add(2, g, {"family": "logquad", "min": [30.0, 0.5]}, {"mode": "declared", "sigma": 0.2},
            {"noise_final_samples": 4}, tags=["declared", "log"])
        add(2, g, {"family": "logquad", "min": [3000.0, 0.5]}, {"mode": "specified", "sigma": 0.2, "sd_kind": "hetero"},
            {"noise_final_samples": 2}, tags=["specified", "log", "outside"])
        # outside optimum with noise (repeated bound points under specified noise)
        add(2, S.box_geom(2, -3, 3, -2, 2, x0=[1.0, 1.0]), _quad(2, r, mn=[6.0, 5.0], cond=4.0),
            {"mode": "specified", "sigma": 0.5, "sd_kind": "const"}, {"noise_final_samples": 3, "max_fun_evals": 120},
            tags=["specified", "outside", "repeats"])
        add(2, S.box_geom(2, -3, 3, -2, 2, x0=[1.0, 1.0]), _quad(2, r, mn=[6.0, 5.0], cond=4.0),
            {"mode": "declared", "sigma": 0.5}, {"noise_final_samples": 3, "max_fun_evals": 120},
            tags=["declared", "outside"])
        # options
        add(2, S.box_geom(2, x0=[2.0, 2.0]), _quad(2, r, cond=5.0), {"mode": "declared", "sigma": 1.0},
            {"complete_poll": True, "noise_final_samples": 2}, tags=["declared", "complete_poll"])
        add(2, S.box_geom(2, x0=[2.0, 2.0]), _quad(2, r, cond=5.0), {"mode": "declared", "sigma": 1.0},
            {"accelerate_mesh": False, "noise_final_samples": 2, "max_fun_evals": 140}, tags=["declared", "noaccel"])
        add(2, S.box_geom(2, x0=[2.0, 2.0]), _quad(2, r, cond=5.0), {"mode": "auto", "sigma": 1.0},
            {"max_iter": 3, "noise_final_samples": 3}, tags=["auto", "maxiter"])
        # budgets just above the initial design (1 + 32 [+1] calls) + reserve
        for b in (46, 50, 60):
            add(2, S.box_geom(2, x0=[2.0, 2.0]), _quad(2, r, cond=5.0), {"mode": "declared", "sigma": 1.0},
                {"max_fun_evals": b, "noise_final_samples": 10}, tags=["declared", "budget"])
        add(2, S.box_geom(2, x0=[2.0, 2.0]), _quad(2, r, cond=5.0), {"mode": "auto", "sigma": 1.0},
            {"max_fun_evals": 48, "noise_final_samples": 4}, tags=["auto", "budget"])
        # auto-detected noise with a budget so tight that the final-sample reserve is clamped
        for b in (35, 38, 43):
            add(2, S.box_geom(2, x0=[2.0, 2.0]), _quad(2, r, cond=5.0), {"mode": "auto", "sigma": 1.0},
                {"max_fun_evals": b, "noise_final_samples": 10}, tags=["auto", "budget", "reserve_clamped"])
        add(2, S.box_geom(2, x0=[2.0, 2.0]), _quad(2, r, cond=5.0), {"mode": "specified", "sigma": 1.0, "sd_kind": "hetero"},
            {"max_fun_evals": 37, "noise_final_samples": 10}, tags=["specified", "budget", "reserve_clamped"])
        # a precise simulator: user-specified SDs far below tol_fun
        add(2, S.box_geom(2, x0=[2.0, 2.0]), _quad(2, r, cond=3.0), {"mode": "specified", "sigma": 1e-4, "sd_kind": "const"},
            {"noise_final_samples": 2, "max_fun_evals": 70}, tags=["specified", "tiny_sd"])
        # noisy runs that stop on the mesh tolerance (the returned point may be an earlier iterate)
        for j in range(2):
            add(2, S.box_geom(2, x0=[2.0, 2.0]), _quad(2, r, cond=3.0), {"mode": "declared", "sigma": 0.3},
                {"tol_mesh": [0.02, 0.05][j], "noise_final_samples": 2, "max_fun_evals": 200}, tags=["declared", "tolmesh"])
        # exactly one final sample, small noise: incumbent roll-backs followed by the final selection
        for j in range(10 if tier == "quick" else 16):
            add(2, S.box_geom(2, x0=[2.0, -2.0]), _quad(2, r, cond=3.0), {"mode": "declared", "sigma": 0.1},
                {"noise_final_samples": 1, "max_fun_evals": 80}, tags=["declared", "one_final_sample"])
        # specified noise where a re-observed point comes out markedly lower, so that merged records become the
        # incumbent / recorded iterates (complete polls re-visit the point opposite to a successful move)
        add(2, S.box_geom(2, -3, 3, -2, 2, x0=[1.0, 1.0]), _quad(2, r, mn=[6.0, 5.0], cond=4.0),
            {"mode": "specified", "sigma": 0.5, "sd_kind": "const", "repeat_drop": 4.0},
            {"noise_final_samples": 3, "max_fun_evals": 130, "complete_poll": True}, tags=["specified", "outside", "repeats", "repeat_drop"])
        add(3, S.box_geom(3, -3, 3, -2, 2, x0=[1.0, 1.0, -1.0]), _quad(3, r, mn=[6.0, 5.0, 0.0], cond=4.0),
            {"mode": "specified", "sigma": 0.5, "sd_kind": "const", "repeat_drop": 4.0},
            {"noise_final_samples": 3, "max_fun_evals": 160, "complete_poll": True}, tags=["specified", "outside", "repeats", "repeat_drop"])
    return out


# --------------------------------------------------------------------------
def cons_panel(tier):
    sd = _seed()
    r = S.rnd(("cons", sd))
    out = []
    n = 0

    def add(D, geom, target, cons, noise=None, options=None, tags=()):
        nonlocal n
        o = {"max_fun_evals": r.choice([70, 90, 110])}
        o.update(options or {})
        out.append(_sc(f"cc{n}", D, geom, target, noise=noise, cons=cons, options=o,
                       seed=r.randrange(10 ** 6), tags=tags))
        n += 1

    reps = 1 if tier == "quick" else 10
    for rep in range(reps):
        box = S.box_geom(2, -5, 5, -3, 3, x0=[0.5, 0.5])
        # half-space cutting off the optimum
        add(2, box, _quad(2, r, mn=[3.0, 3.0]), {"family": "halfspace", "w": [1.0, 1.0], "b": 2.0}, tags=["halfspace"])
        # ball, optimum outside the ball
        add(2, box, _quad(2, r, mn=[2.5, -2.0]), {"family": "ball", "c": [0.0, 0.0], "r": 1.5}, tags=["ball"])
        add(3, S.box_geom(3, -5, 5, -3, 3, x0=[0.2, 0.1, -0.3]), _quad(3, r, mn=[2.5, -2.0, 1.0]),
            {"family": "ball", "c": [0.0, 0.0, 0.0], "r": 1.5}, tags=["ball"])
        # thin slab through x0
        add(2, box, _quad(2, r, mn=[2.0, -1.0]), {"family": "slab", "w": [1.0, -1.0], "b": 0.0, "h": 0.05}, tags=["slab"])
        add(2, box, _quad(2, r, mn=[2.0, -1.0]), {"family": "slab", "w": [1.0, -1.0], "b": 0.0, "h": 0.003},
            options={"max_fun_evals": 60}, tags=["slab", "thin"])
        # non-convex annulus
        add(2, S.box_geom(2, -5, 5, -3, 3, x0=[1.5, 0.0]), _quad(2, r, mn=[0.0, 0.0]),
            {"family": "annulus", "c": [0.0, 0.0], "r1": 1.0, "r2": 2.0}, tags=["annulus"])
        # constraints x log transform
        g = {"lb": [1e-3, 1e-2], "ub": [1e3, 1e2], "plb": [1e-2, 1e-1], "pub": [1e2, 1e1], "x0": [1.0, 2.0]}
        add(2, g, {"family": "logquad", "min": [300.0, 0.05]}, {"family": "halfspace", "w": [1.0, 10.0], "b": 60.0},
            tags=["halfspace", "log"])
        g2 = {"lb": [1e-3, -5], "ub": [100, 5], "plb": [1e-2, -2], "pub": [10, 2], "x0": [1.0, 1.0]}
        add(2, g2, {"family": "quad", "min": [80.0, 4.0], "eig": [1.0, 3.0], "rot_seed": 1},
            {"family": "halfspace", "w": [0.05, 1.0], "b": 3.0}, tags=["halfspace", "mixedlog"])
        # constraints x noise modes
        for mode in ("auto", "declared", "specified"):
            noise = {"mode": mode, "sigma": 0.5, "sd_kind": "hetero" if mode == "specified" else "const"}
            add(2, box, _quad(2, r, mn=[3.0, 3.0], cond=5.0), {"family": "halfspace", "w": [1.0, 1.0], "b": 2.0},
                noise=noise, options={"noise_final_samples": 3}, tags=["halfspace", mode])
            add(2, box, _quad(2, r, mn=[2.5, -2.0], cond=5.0), {"family": "ball", "c": [0.0, 0.0], "r": 1.5},
                noise=noise, options={"noise_final_samples": 2}, tags=["ball", mode])
        # constraint functions returning violation amounts (floats; > 0 violated, exactly 0 feasible)
        add(2, box, _quad(2, r, mn=[3.0, 3.0]), {"family": "halfspace", "w": [1.0, 1.0], "b": 2.0, "float": True}, tags=["halfspace", "floatcons"])
        add(2, box, _quad(2, r, mn=[2.5, -2.0]), {"family": "ball", "c": [0.0, 0.0], "r": 1.5, "float": True}, tags=["ball", "floatcons"])
        add(2, S.box_geom(2, -4, 4, -2, 2, x0=[0.0, 0.0]), _quad(2, r, mn=[3.0, 0.0]),
            {"family": "halfspace", "w": [1.0, 0.0], "b": 1.0, "float": True}, options={"max_fun_evals": 90}, tags=["halfspace", "floatcons", "onmesh_boundary"])
        # budgets that cut the initial design short
        gtb = {"lb": [-4, -4], "ub": [4, 4], "plb": [-3, -3], "pub": [3, 3], "x0": [-1.0, -0.5]}
        for bud, nz in ((3, None), (4, None), (5, None), (3, None), (4, None), (12, {"mode": "declared", "sigma": 0.5}),
                        (18, {"mode": "declared", "sigma": 0.5})):
            add(2, gtb, _quad(2, r, mn=[3.0, 3.0]), {"family": "halfspace", "w": [1.0, 1.0], "b": 0.5}, noise=nz,
                options={"max_fun_evals": bud, "noise_final_samples": 0 if nz else 10}, tags=["halfspace", "tiny_budget"])
        for bud in (3, 4, 5):
            add(2, gtb, _quad(2, r, mn=[2.5, -2.0]), {"family": "ball", "c": [-1.0, -0.5], "r": 1.5},
                options={"max_fun_evals": bud}, tags=["ball", "tiny_budget"])
        # a design larger than what is left of the budget, with a constraint that removes only a small part of it
        for bud in (5, 6, 7, 6, 7):
            add(2, gtb, _quad(2, r, mn=[3.0, 3.0]), {"family": "halfspace", "w": [1.0, 1.0], "b": 2.0},
                options={"max_fun_evals": bud, "fun_eval_start": 8}, tags=["halfspace", "tiny_budget", "big_design"])
        # option-specific branches of the poll step: poll points forced onto the search mesh
        add(2, box, _quad(2, r, mn=[2.5, -2.0]), {"family": "ball", "c": [0.0, 0.0], "r": 1.5},
            options={"force_poll_mesh": True, "max_fun_evals": 80}, tags=["ball", "force_poll_mesh"])
        add(2, box, _quad(2, r, mn=[3.0, 3.0]), {"family": "halfspace", "w": [1.0, 1.0], "b": 2.0},
            options={"force_poll_mesh": True, "max_fun_evals": 80, "complete_poll": True}, tags=["halfspace", "force_poll_mesh", "complete_poll"])
        # candidate sets that shrink to a single row: 1-D problems next to a bound, one-point initial designs
        add(1, {"lb": [0.0], "ub": [10.0], "plb": [1.0], "pub": [9.0], "x0": [9.5]}, {"family": "quad", "min": [2.0], "eig": [1.0], "rot_seed": 0},
            {"family": "halfspace", "w": [-1.0], "b": -6.0}, options={"max_fun_evals": 50}, tags=["d1", "single_row"])
        add(1, {"lb": [-4.0], "ub": [4.0], "plb": [-2.0], "pub": [2.0], "x0": [-3.7]}, {"family": "quad", "min": [3.0], "eig": [1.0], "rot_seed": 0},
            {"family": "halfspace", "w": [1.0], "b": -1.5}, options={"max_fun_evals": 50}, tags=["d1", "single_row"])
        add(2, S.box_geom(2, -8, 8, -6, 6, x0=[0.2, 0.1]), _quad(2, r, mn=[3.0, 3.0]), {"family": "ball", "c": [0.0, 0.0], "r": 1.0},
            options={"fun_eval_start": 1, "max_fun_evals": 50}, tags=["one_point_design", "single_row"])
        add(1, {"lb": [0.0], "ub": [10.0], "plb": [1.0], "pub": [9.0], "x0": [9.5]}, {"family": "quad", "min": [2.0], "eig": [1.0], "rot_seed": 0},
            {"family": "halfspace", "w": [-1.0], "b": -6.0}, noise={"mode": "declared", "sigma": 0.3},
            options={"max_fun_evals": 70, "noise_final_samples": 2}, tags=["d1", "single_row", "declared"])
        # infeasible starting points: x0 itself, and x0 feasible but snapped image infeasible.
        # pairs g(x) >= g(x0) / g(x) <= g(x0): one of each pair is infeasible after snapping
        for k in range(3):
            x0 = [round(r.uniform(-2.5, 2.5), 4), round(r.uniform(-2.5, 2.5), 4)]
            w = [round(r.uniform(-1, 1), 3), round(r.uniform(-1, 1), 3)]
            ref = w[0] * x0[0] + w[1] * x0[1]
            for sgn in (1.0, -1.0):
                add(2, S.box_geom(2, -5, 5, -3, 3, x0=x0), _quad(2, r),
                    {"family": "gex", "w": w, "ref": ref, "sign": sgn}, options={"max_fun_evals": 40},
                    tags=["x0edge"])
        add(2, S.box_geom(2, -5, 5, -3, 3, x0=[2.9, 2.9]), _quad(2, r), {"family": "ball", "c": [0.0, 0.0], "r": 1.5},
            tags=["x0infeasible"])
        add(2, S.box_geom(2, -5, 5, -3, 3, x0=[1.4, 1.4]), _quad(2, r), {"family": "halfspace", "w": [1.0, 1.0], "b": 2.0},
            tags=["x0infeasible"])
    return out


PANELS = {"core_det": core_det, "core_noisy": core_noisy, "cons": cons_panel}


# --------------------------------------------------------------------------
def steer_panel(tier):
    """scenarios steering real runs onto rare internal paths (C09)"""
    sd = _seed()
    r = S.rnd(("steer", sd))
    out = []
    n = 0

    def add(D, geom, target, cons=None, noise=None, options=None, tags=()):
        nonlocal n
        o = {"max_fun_evals": 70}
        o.update(options or {})
        out.append(_sc(f"st{n}", D, geom, target, noise=noise, cons=cons, options=o,
                       seed=r.randrange(10 ** 6), tags=tags))
        n += 1

    reps = 1 if tier == "quick" else 8
    for rep in range(reps):
        box = S.box_geom(2, -5, 5, -3, 3, x0=[1.0, 1.0])
        # every ES candidate infeasible: feasible set is the line x2 = 1
        box0 = S.box_geom(2, -5, 5, -3, 3, x0=[1.0, 0.0])
        add(2, box0, _quad(2, r, mn=[2.0, 0.0]), cons={"family": "slab", "w": [0.0, 1.0], "b": 0.0, "h": 1e-12},
            tags=["es_all_infeasible"])
        add(2, box0, _quad(2, r, mn=[2.0, 0.0]), cons={"family": "slab", "w": [0.0, 1.0], "b": 0.0, "h": 1e-12},
            noise={"mode": "declared", "sigma": 0.5}, options={"noise_final_samples": 2}, tags=["es_all_infeasible", "declared"])
        # thin but two-dimensional feasible sets: search set often empty
        add(2, box, _quad(2, r, mn=[2.0, -1.0]), cons={"family": "slab", "w": [1.0, -1.0], "b": 0.0, "h": 1e-3},
            tags=["thin", "search_empty"])
        add(2, box, _quad(2, r, mn=[0.0, 0.0]), cons={"family": "ball", "c": [1.0, 1.0], "r": 0.02},
            tags=["thin", "search_empty"])
        # repeated observation of a logged point under specified noise
        for k in range(2):
            add(2, S.box_geom(2, -3, 3, -2, 2, x0=[1.0, 1.0]), _quad(2, r, mn=[6.0, 5.0], cond=4.0),
                noise={"mode": "specified", "sigma": 0.5, "sd_kind": "const"},
                options={"noise_final_samples": 3, "max_fun_evals": 120}, tags=["specified", "repeats"])
        add(1, S.box_geom(1, 0, 1, 0.1, 0.9, x0=[0.5]), {"family": "linear", "w": [1.0]},
            noise={"mode": "specified", "sigma": 0.2, "sd_kind": "const"},
            options={"noise_final_samples": 2, "max_fun_evals": 90}, tags=["specified", "repeats"])
        # non-finite GP prediction at the incumbent: constant / piecewise constant targets
        add(2, box, {"family": "const", "c": 2.0}, options={"max_fun_evals": 50}, tags=["gp_nonfinite"])
        add(1, S.box_geom(1, x0=[1.0]), {"family": "const", "c": -1.0}, options={"max_fun_evals": 40}, tags=["gp_nonfinite"])
        add(2, box, {"family": "plateau", "min": [0.4, 0.6], "q": 0.05}, options={"max_fun_evals": 60}, tags=["gp_nonfinite", "plateau"])
        add(2, box, {"family": "const", "c": 2.0}, noise={"mode": "declared", "sigma": 1.0},
            options={"max_fun_evals": 70, "noise_final_samples": 2}, tags=["gp_nonfinite", "declared"])
        add(2, box, {"family": "const", "c": 2.0}, noise={"mode": "specified", "sigma": 0.5, "sd_kind": "const"},
            options={"max_fun_evals": 70, "noise_final_samples": 2}, tags=["gp_nonfinite", "specified"])
        add(2, box, {"family": "const", "c": 2.0}, noise={"mode": "auto", "sigma": 0.5},
            options={"max_fun_evals": 70, "noise_final_samples": 2}, tags=["gp_nonfinite", "auto"])
        # reported SD but an exactly constant value (declared stochastic, no actual noise)
        add(2, box, {"family": "const", "c": 2.0}, noise={"mode": "specified", "sigma": 0.5, "sd_kind": "const", "actual": 0.0},
            options={"max_fun_evals": 70, "noise_final_samples": 2}, tags=["gp_nonfinite", "specified", "zero_actual_noise"])
        add(2, box, {"family": "const", "c": 2.0}, noise={"mode": "declared", "sigma": 0.5, "actual": 0.0},
            options={"max_fun_evals": 70, "noise_final_samples": 2}, tags=["gp_nonfinite", "declared", "zero_actual_noise"])
        # noise much larger than options['noise_size'] (high-noise refit branch)
        add(2, box, _quad(2, r, cond=4.0), noise={"mode": "auto", "sigma": 10.0},
            options={"max_fun_evals": 120, "noise_final_samples": 3}, tags=["high_noise", "auto"])
        add(1, S.box_geom(1, x0=[1.0]), _quad(1, r), noise={"mode": "declared", "sigma": 9.0},
            options={"max_fun_evals": 110, "noise_final_samples": 3}, tags=["high_noise", "declared"])
        add(3, S.box_geom(3, x0=[1.0, -1.0, 0.5]), _quad(3, r, cond=4.0), noise={"mode": "declared", "sigma": 25.0},
            options={"max_fun_evals": 130, "noise_final_samples": 2}, tags=["high_noise", "declared"])
        # user output function: stops the run at initialisation / never stops
        add(2, box, _quad(2, r), options={"_output_fcn": "stop_init", "max_fun_evals": 40}, tags=["output_fcn", "stop_init"])
        add(2, box, _quad(2, r), options={"_output_fcn": "never", "max_fun_evals": 40}, tags=["output_fcn"])
        add(2, box, _quad(2, r, cond=4.0), noise={"mode": "declared", "sigma": 0.5},
            options={"_output_fcn": "stop_init", "max_fun_evals": 60, "noise_final_samples": 2}, tags=["output_fcn", "stop_init", "declared"])
        # noisy runs that end within their first poll iteration, with and without final samples
        for mode in ("declared", "auto", "specified"):
            nz = {"mode": mode, "sigma": 0.5, "sd_kind": "const"}
            add(2, box, _quad(2, r, cond=4.0), noise=nz, options={"max_iter": 1, "noise_final_samples": 0, "max_fun_evals": 80},
                tags=["first_iteration_end", "nofinal", mode])
            add(2, box, _quad(2, r, cond=4.0), noise=nz, options={"max_iter": 1, "noise_final_samples": 2, "max_fun_evals": 80},
                tags=["first_iteration_end", mode])
        add(2, box, _quad(2, r, cond=4.0), noise={"mode": "declared", "sigma": 0.5}, options={"noise_final_samples": 0, "max_fun_evals": 34},
            tags=["first_iteration_end", "nofinal", "declared", "budget_eq_init"])
        # stochastic MADS success rule
        add(2, box, _quad(2, r, cond=4.0), noise={"mode": "declared", "sigma": 0.5},
            options={"stobads": True, "max_fun_evals": 80, "noise_final_samples": 2}, tags=["stobads"])
        add(2, box, _quad(2, r, cond=4.0), noise={"mode": "declared", "sigma": 0.5},
            options={"stobads": True, "opp_stobads": False, "max_fun_evals": 80, "noise_final_samples": 2}, tags=["stobads", "noopp"])
        # a single evaluation
        add(2, box, _quad(2, r), options={"max_fun_evals": 1}, tags=["budget_one"])
        # poll with few / no candidates: tiny tight box, incumbent in a corner
        g = {"lb": [0, 0], "ub": [1, 1], "plb": [0, 0], "pub": [1, 1], "x0": [0.999, 0.999]}
        add(2, g, {"family": "linear", "w": [-1.0, -1.0]}, options={"max_fun_evals": 60}, tags=["corner"])
        # budgets at / just above the initial design
        for b in (5, 6):
            add(2, S.box_geom(2, x0=[2.0, -3.0]), _quad(2, r), options={"max_fun_evals": b}, tags=["budget_eq_init"])
        for b in (34, 35, 40, 44, 45):
            add(2, S.box_geom(2, x0=[2.0, 2.0]), _quad(2, r, cond=5.0), noise={"mode": "declared", "sigma": 1.0},
                options={"max_fun_evals": b, "noise_final_samples": 10}, tags=["declared", "budget_eq_init"])
        add(2, S.box_geom(2, x0=[2.0, 2.0]), _quad(2, r, cond=5.0), noise={"mode": "specified", "sigma": 1.0, "sd_kind": "hetero"},
            options={"max_fun_evals": 40, "noise_final_samples": 0}, tags=["specified", "budget_eq_init"])
        # mode matrix on log geometry with constraints
        g = {"lb": [1e-3, 1e-2], "ub": [1e3, 1e2], "plb": [1e-2, 1e-1], "pub": [1e2, 1e1], "x0": [1.0, 2.0]}
        for mode in ("det", "auto", "declared", "specified"):
            noise = {"mode": mode, "sigma": 0.3, "sd_kind": "hetero" if mode == "specified" else "const"}
            add(2, g, {"family": "logquad", "min": [300.0, 0.05]},
                cons={"family": "halfspace", "w": [1.0, 10.0], "b": 60.0}, noise=noise,
                options={"noise_final_samples": 2, "max_fun_evals": 80}, tags=["matrix", "log", "cons", mode])
        # GP fit failures (injected, within the seam's contract)
        add(2, box, _quad(2, r), options={"max_fun_evals": 60}, tags=["fit_retry"])
        out[-1]["faults"] = {"fit": [0]}
        add(2, box, _quad(2, r), options={"max_fun_evals": 60}, tags=["fit_retry"])
        out[-1]["faults"] = {"fit": [2]}
    return out


PANELS["steer"] = steer_panel

# --------------------------------------------------------------------------
def optvar_panel(tier):
    """valid non-default settings of the controller options the specification reads (Construct.cfg):
    every rule operator of BadsRules.tla is exercised by real runs away from the default values"""
    sd = _seed()
    r = S.rnd(("optvar", sd))
    out = []
    nsc = 14 if tier == "quick" else 90
    for j in range(nsc):
        D = r.choice([1, 2, 2, 3])
        o = {}
        o["skip_poll_after_search"] = r.random() < 0.6
        o["search_n_try"] = r.choice([1, 2, 3, 4])
        o["search_mesh_expand"] = r.choice([0, 1, 2, 3])
        o["search_mesh_increment"] = r.choice([1, 2])
        o["max_poll_grid_number"] = r.choice([0, 0, 1, 2])
        o["search_size_locked"] = r.random() < 0.6
        o["search_grid_number"] = r.choice([10, 6, 3])
        o["search_grid_multiplier"] = r.choice([2, 3])
        o["accelerate_mesh"] = r.random() < 0.6
        o["accelerate_mesh_steps"] = r.choice([1, 3, 5])
        o["complete_poll"] = r.random() < 0.3
        o["fun_eval_start"] = r.choice([D, 2 * D + 1, 9, 16])
        o["min_refit_time"] = r.choice([1, 2 * D, 3 * D])
        o["tol_improvement"] = r.choice([1.0, 0.1, 3.0])
        o["forcing_exponent"] = r.choice([1.5, 2.0, 1.0])
        o["sloppy_improvement"] = r.random() < 0.6
        o["tol_stall_iters"] = r.choice([2, 4, 7])
        o["tol_fun"] = r.choice([1e-3, 1e-2, 1e-5])
        o["tol_mesh"] = r.choice([1e-6, 1e-4, 1e-3])
        o["n_search_iter"] = r.choice([1, 2, 3])
        o["force_poll_mesh"] = r.random() < 0.3
        o["max_fun_evals"] = r.choice([60, 90, 130])
        if j % 5 == 4:
            o["poll_mesh_multiplier"] = [1.5, 4.0, 2.5, 3.0][(j // 5) % 4]
        noisy = (j % 3 == 2)
        noise = None
        if noisy:
            noise = {"mode": r.choice(["declared", "auto", "specified"]), "sigma": r.choice([0.3, 1.0]), "sd_kind": "const"}
            o["noise_final_samples"] = r.choice([0, 2, 5])
            o["max_fun_evals"] += 30
        x0 = [round(r.uniform(-4, 4), 3) for _ in range(D)]
        geom = S.box_geom(D, x0=x0) if j % 4 else S.box_geom(D, -5, 5, -3, 3, x0=[min(3.0, max(-3.0, v)) for v in x0])
        mn = None if j % 2 else [round(r.uniform(5.5, 8), 2) * r.choice([-1, 1]) for _ in range(D)]
        out.append(_sc(f"ov{j}", D, geom, _quad(D, r, cond=10.0, mn=mn), noise=noise, options=o,
                       seed=r.randrange(10 ** 6), tags=["optvar"] + (["noisy"] if noisy else [])))
    return out


PANELS["optvar"] = optvar_panel


# --------------------------------------------------------------------------
def script_panel(tier):
    """TLC-generated behaviours of the design spec (specs/BadsRunSim.tla) replayed into the real optimiser:
    each simulated behaviour's sequence of value relations scripts the target of one real run, whose options
    realise the constants of the simulated configuration"""
    from . import simscripts
    sd = _seed()
    out = []
    for j, (vi, c, script, summ) in enumerate(simscripts.generate(sd, 6 if tier == "quick" else 60)):
        D = c["D"]
        x0 = [1.0, -1.5, 0.5][:D]
        out.append(_sc(f"sc{j}", D, S.box_geom(D, x0=x0), {"family": "script", "script": script},
                       options=simscripts.options_for(c), seed=100 + j,
                       tags=["script", f"variant{vi}"]))
        out[-1]["sim"] = summ
    return out


PANELS["script"] = script_panel


# --------------------------------------------------------------------------
def optvar2_panel(tier):
    """valid non-default settings of the remaining documented options that the code reads (GP training-set size and
    radius, poll early-stop rules, incumbent uncertainty, refit policy, search scale factors, nonlinear scaling):
    'every supported option combination' of C09, and each run is validated against both trace specifications"""
    sd = _seed()
    r = S.rnd(("optvar2", sd))
    out = []
    nsc = 22 if tier == "quick" else 160
    groups = [
        {"tol_poi": 0.0}, {"tol_poi": 1e-2}, {"min_failed_poll_steps": 1}, {"min_failed_poll_steps": 0, "consecutive_skipping": False},
        {"improvement_quantile": 0.3}, {"incumbent_sigma_multiplier": 0.5}, {"uncertain_incumbent": False},
        {"n_train_max": 20, "n_train_min": 10, "buffer_ntrain": 5}, {"gp_radius": 2.0}, {"use_effective_radius": False},
        {"double_refit": True}, {"mesh_noise_multiplier": 0.0}, {"search_scale_success": 2.0, "search_scale_failure": 0.5},
        {"final_quantile": 0.1}, {"alternative_incumbent": True}, {"adaptive_incumbent_shift": True},
        {"nonlinear_scaling": False}, {"noise_size": 0.5}, {"gp_rescale_poll": 0.5}, {"search_optimize": True},
        {"poll_training": False}, {"remove_points_after_tries": 2},
        {"gp_mean_fun": "zero"}, {"gp_mean_fun": "negquad"}, {"upper_gp_length_factor": 2.0}, {"gp_mean_percentile": 50},
        {"hedge_gamma": 0.3, "hedge_decay": 0.5}, {"es_beta": 2.0, "es_start": 0.5}, {"n_search": 128},
        {"gp_train_n_init": 16, "gp_train_n_init_final": 2}, {"mesh_overflow_warning": 1},
        # not varied: fit_lik=False selects a fixed-noise ("delta") hyperprior that gpyreg does not implement -- an
        # unported feature that fails with gpyreg's "Unknown hyperprior type delta", like periodic_vars
    ]
    for j in range(nsc):
        D = r.choice([1, 2, 2, 3])
        o = {"max_fun_evals": r.choice([60, 90, 120])}
        picked = []
        # every group is used in turn (so that quick covers most of them), plus one or two random ones
        for gi in {j % len(groups), (7 * j + 3) % len(groups), r.randrange(len(groups))}:
            o.update(groups[gi])
            picked.append(gi)
        noisy = (j % 3 == 1)
        noise = None
        if noisy:
            noise = {"mode": r.choice(["declared", "auto", "specified"]), "sigma": r.choice([0.3, 1.0]), "sd_kind": "const"}
            o["noise_final_samples"] = r.choice([0, 2, 5])
            o["max_fun_evals"] += 30
        if j % 4 == 3:      # log-eligible geometry (matters for nonlinear_scaling)
            geom = {"lb": [1e-3] * D, "ub": [1e3] * D, "plb": [1e-2] * D, "pub": [1e2] * D, "x0": [round(r.uniform(0.5, 5), 3) for _ in range(D)]}
            target = {"family": "logquad", "min": [round(10 ** r.uniform(-1, 1.5), 3) for _ in range(D)]}
        else:
            x0 = [round(r.uniform(-4, 4), 3) for _ in range(D)]
            geom = S.box_geom(D, x0=x0)
            mn = None if j % 2 else [round(r.uniform(5.5, 8), 2) * r.choice([-1, 1]) for _ in range(D)]
            target = _quad(D, r, cond=10.0, mn=mn)
        out.append(_sc(f"ow{j}", D, geom, target, noise=noise, options=o, seed=r.randrange(10 ** 6),
                       tags=["optvar2"] + (["noisy"] if noisy else []) + [f"g{g}" for g in sorted(picked)]))
    return out


PANELS["optvar2"] = optvar2_panel


# --------------------------------------------------------------------------
def stobads_panel(tier):
    """the stochastic-MADS success rule (options['stobads'], documented in advanced_bads_options.ini): noisy runs in
    all three noise modes, opportunistic variant on and off, 1 / 2 / 10 final samples.  The trace specification
    classifies these polls with the StoMADS rule (see BadsRunTrace StoRule); BadsRun.tla's refinement skips them."""
    sd = _seed()
    r = S.rnd(("stobads", sd))
    out = []
    nsc = 16 if tier == "quick" else 120
    for j in range(nsc):
        D = r.choice([2, 2, 3])
        mode = ("declared", "auto", "specified")[j % 3]
        sigma = r.choice([0.5, 1.0, 2.0, 3.0])
        noise = {"mode": mode, "sigma": sigma, "sd_kind": "hetero" if (mode == "specified" and j % 2) else "const"}
        o = {"stobads": True, "max_fun_evals": r.choice([80, 100, 150]), "noise_final_samples": (1, 1, 2, 10)[j % 4]}
        if j % 5 == 4:
            o["opp_stobads"] = False
        if j % 7 == 6:
            o["complete_poll"] = True
        x0 = [round(r.uniform(-3, 3), 3) for _ in range(D)]
        out.append(_sc(f"sb{j}", D, S.box_geom(D, x0=x0), _quad(D, r, cond=10.0), noise=noise, options=o,
                       seed=r.randrange(10 ** 6), tags=["stobads", mode] + ([] if o.get("opp_stobads", True) else ["noopp"])))
    return out


PANELS["stobads"] = stobads_panel
