"""Run-level property checks: design model (TLC, exhaustive on small
constants) + trace validation of real runs against BadsRunTrace."""
import hashlib
import json
import os
import pickle
import time

from . import common, panels
from .common import CACHE, MachineryError, Verdict
from .runpanel import run_panel, _tree_hash
from .tlc import run_tlc, SPECS

# clause prefixes that belong to a property although named after another one
EXTRA_CLAUSES = {
    "C06": [],
}


def design_model(cfgname="BadsRun.cfg", spec="BadsRun", timeout=900):
    """Model-check the design spec (cached per spec+cfg hash)."""
    h = hashlib.sha256()
    for f in sorted(os.listdir(SPECS)):
        if f.endswith(".tla") or f == cfgname:
            with open(os.path.join(SPECS, f), "rb") as fh:
                h.update(fh.read())
    key = h.hexdigest()[:20]
    d = os.path.join(CACHE, "design")
    os.makedirs(d, exist_ok=True)
    p = os.path.join(d, f"{spec}-{cfgname}-{key}.pkl")
    if os.path.exists(p):
        with open(p, "rb") as fh:
            return pickle.load(fh)
    r = run_tlc(spec, cfg=cfgname, timeout=timeout, coverage="big" not in cfgname, jvm_mem="12g" if "big" in cfgname else "4g")
    out = {"ok": r.ok, "states": r.states_generated, "distinct": r.distinct_states,
           "diameter": r.diameter, "violated": r.violated, "errors": r.errors[:5],
           "wall_s": round(r.wall_s, 1), "coverage": r.coverage, "cfg": cfgname,
           "tail": r.output[-1500:] if not r.ok else ""}
    if r.ok:
        with open(p, "wb") as fh:
            pickle.dump(out, fh)
    return out


def _site_of(evd):
    e = evd.get("e")
    if e in ("Filter", "ConsCall", "GPTrainSet", "Neighbors", "GPAdd", "Acq"):
        return f"{e}:{evd.get('site')}"
    if e == "Eval":
        return f"Eval:{evd.get('kind')}"
    if e == "Crash":
        fr = (evd.get("frame") or "").split(":")
        fr = ":".join([fr[0], fr[-1]]) if len(fr) >= 3 else evd.get("frame")
        return f"Crash:{evd.get('type')}@{fr}"
    return e


def run_level_check(prop, tier, panel_names, level="model_checking", design_cfgs=("BadsRun.cfg",),
                    extra_filter=None, notes=(), scenario_filter=None, extra_panels=None,
                    post=None, clause_prefixes=None):
    v = Verdict(prop, tier, level)
    prefixes = tuple(clause_prefixes or [prop + "."])
    # ---- design model -----------------------------------------------------
    dstates = dtrans = 0
    dinfo = []
    if tier == "thorough" and design_cfgs:
        # D=2, Budget=12, NTry=3: ~5 M states; and the non-default incumbent policy (sloppy_improvement = False)
        design_cfgs = tuple(design_cfgs) + ("BadsRun_big.cfg", "BadsRun_nosloppy.cfg")
    for cfg in design_cfgs:
        dm = design_model(cfg, timeout=2400 if "big" in cfg else 900)
        dinfo.append({k: dm[k] for k in ("cfg", "ok", "states", "distinct", "diameter", "violated", "wall_s")})
        if not dm["ok"]:
            if dm["violated"]:
                v.violation(f"{prop}.design_model:{','.join(dm['violated'])}", site="BadsRun.tla",
                            where=cfg, detail={"tail": dm["tail"][-600:]})
            else:
                raise MachineryError("design model did not complete: %s %s" % (dm["errors"], dm["tail"]))
        dstates += dm["distinct"]
        dtrans += dm["states"]
    # ---- traces of real runs ------------------------------------------------
    total_runs = 0
    total_events = 0
    actions = {}
    nontrivial = set()
    samples = []
    other_props = {}
    ext = {}
    tlc_states = 0
    refine_stats = {}
    refine_skips = {}
    all_panels = []
    for name in panel_names:
        scs = panels.PANELS[name](tier)
        all_panels.append((name, scs))
    for name, scs in (extra_panels or []):
        all_panels.append((name, scs))
    results = []
    for name, scs in all_panels:
        if scenario_filter is not None:
            scs = [sc for sc in scs if scenario_filter(sc)]
        if not scs:
            continue
        res = run_panel(scs, name=f"{name}-{tier}")
        results.append((name, scs, res))
        total_runs += len(scs)
        for o in res.get("refine", []):
            refine_stats[o["status"]] = refine_stats.get(o["status"], 0) + 1
            if o["status"] == "skipped":
                refine_skips[o["reason"]] = refine_skips.get(o["reason"], 0) + 1
        total_events += res["stats"]["events"]
        tlc_states += res["stats"]["tlc_distinct"]
        for i, sc in enumerate(scs):
            evs = res["events"][i]
            info = res["infos"][i]
            for a, c in info["actions"].items():
                actions[a] = actions.get(a, 0) + c
            for (clause, li) in res["verdicts"][i]:
                evd = evs[li] if 0 <= li < len(evs) else {}
                if clause.startswith("MACH."):
                    raise MachineryError(f"{clause} in scenario {sc['id']}: {evd}")
                if clause.startswith("EXT."):
                    ext[clause] = ext.get(clause, 0) + 1
                    continue
                if clause.startswith(prefixes):
                    summ = res["summaries"][i]
                    v.violation(clause, site=_site_of(evd),
                                where=f"{name}/{sc['id']}@event{li}",
                                detail={"event": evd, "tags": sc.get("tags"),
                                        "noise": sc["noise"]["mode"],
                                        "crash_msg": summ.get("crash_msg", "")[:80],
                                        "crash_src": summ.get("crash_src", "")[:120],
                                        "scenario": sc})
                else:
                    other_props[clause] = other_props.get(clause, 0) + 1
            if len(samples) < 3:
                samples.append({"scenario": sc, "first_events": evs[:6], "n_events": len(evs),
                                "result": res["summaries"][i].get("fval")})
            sig = (tuple(sorted(info["actions"].keys())), tuple(sc.get("tags", [])), sc["noise"]["mode"], sc["D"])
            nontrivial.add(sig)
    if post is not None:
        post(v, results)
    v.coverage.update({
        "states": max(dstates + tlc_states, 1),
        "transitions": max(dtrans + total_events, 1),
        "design_model": dinfo,
        "traces_validated_against_impl": total_runs,
        "trace_events_validated": total_events,
        "evaluations": total_runs,
        "distinct_nontrivial": len(nontrivial),
        "rule": "scenario panels " + ",".join(n for n, _ in all_panels) +
                "; a run is counted once per distinct (set of spec actions its trace exercised, scenario tags, noise mode, D)",
        "spec_actions_exercised_by_real_traces": actions,
        "samples": samples,
        "clauses_of_other_properties_seen": other_props,
        "extended_conformance_deviations": ext,
        "design_refinement": {"runs_by_status": refine_stats, "skipped_because": refine_skips,
                              "rule": "each recorded run is checked to be a behaviour of specs/BadsRun.tla itself "
                                      "(acceptor BadsRunRefine.tla, one TLC run per recorded run with the run's options as constants)"},
        "exhaustive": False,
    })
    v.assumptions += list(notes) + [
        "observer wrappers are add-only (results compared bit-for-bit with an unobserved run in the self-test)",
        "order-isomorphic ranks preserve <,=,min,argmin of every float sort",
        "numeric guards (marked 'guard' in DESIGN.md appendix B) are evaluated by the projection with declared tolerances",
    ]
    return v


# ---------------------------------------------------------------------------
def check_C01(tier):
    return run_level_check("C01", tier, ["core_det", "core_noisy", "cons"], design_cfgs=())


def check_C02(tier):
    return run_level_check("C02", tier, ["cons"], design_cfgs=())


def _inductive(v, prop):
    """unbounded-parameter inductive invariant of the controller skeleton (Apalache)"""
    from .apalache import inductive_controller
    res = inductive_controller()
    v.coverage["inductive_invariant_apalache"] = res
    for ob in res["obligations"]:
        if not ob["discharged"]:
            v.violation(f"{prop}.design_inductive_invariant", site="BadsCtlApa.tla", where=ob["name"])
    from .apalache import abstraction_covers
    xc = abstraction_covers()
    v.coverage["apalache_skeleton_covers_badsrun"] = xc
    if not xc["covered"]:
        v.violation(f"{prop}.design_skeleton_drift", site="BadsCtlApa.tla vs BadsRun.tla", where=str(xc["missing"]))


def check_C03(tier):
    v = run_level_check("C03", tier, ["core_det", "core_noisy", "cons", "optvar", "optvar2", "script", "stobads"],
                        design_cfgs=("BadsRun.cfg", "BadsRun_noisy.cfg"))
    _inductive(v, "C03")
    return v


def check_C04(tier):
    return run_level_check("C04", tier, ["core_det", "cons", "optvar", "script"], design_cfgs=("BadsRun.cfg",),
                           scenario_filter=lambda sc: sc["noise"]["mode"] == "det")


def check_C05(tier):
    v = run_level_check("C05", tier, ["core_noisy", "core_det", "cons", "optvar", "stobads"],
                        design_cfgs=("BadsRun_noisy.cfg",))
    # FinalSamplesTaken and the budget with the reserve hold for every Budget / NFinal (Apalache)
    _inductive(v, "C05")
    return v


def check_C13(tier):
    v = run_level_check("C13", tier, ["core_det", "core_noisy", "optvar", "script", "stobads"],
                        design_cfgs=("BadsRun.cfg", "BadsRun_noisy.cfg"))
    _inductive(v, "C13")
    return v


def check_C19run(tier):
    return run_level_check("C19", tier, ["core_det", "core_noisy", "cons", "optvar", "stobads"],
                           design_cfgs=("BadsRun.cfg",))


def check_C09(tier):
    return run_level_check("C09", tier, ["core_det", "core_noisy", "cons", "steer", "optvar", "optvar2", "stobads"], level="exploration",
                           design_cfgs=("BadsRun.cfg",))


# ---------------------------------------------------------------------------
# C10: fault enumeration over the position of the failing target call
# ---------------------------------------------------------------------------
VAL_FAULTS = ["exception", "exception2", "exception3", "exception4", "exception5", "nan", "nan0d", "inf", "-inf", "complex", "vector", "none",
              "complex_arr", "complex0d", "complex_np", "inf_arr"]
SPEC_FAULTS = ["exception", "exception2", "exception3", "exception4", "exception5", "pair_nan", "pair_inf", "not_pair", "triple", "sd_zero", "sd_neg",
               "sd_nan", "sd_inf", "sd_zero_arr", "none", "pair_complex_arr", "sd_complex_arr", "sd_neg_arr"]


def _c10_bases():
    from . import scenarios as S
    out = []
    box = S.box_geom(2, x0=[2.0, -3.0])
    tq = {"family": "quad", "min": [0.5, 1.0], "eig": [1.0, 4.0], "rot_seed": 5}
    out.append({"id": "f_det", "D": 2, "geom": box, "target": tq, "noise": {"mode": "det"}, "cons": None,
                "options": {"max_fun_evals": 45}, "seed": 11, "tags": ["c10base"]})
    for mode in ("auto", "declared", "specified"):
        out.append({"id": "f_" + mode, "D": 2, "geom": box, "target": tq,
                    "noise": {"mode": mode, "sigma": 0.5, "sd_kind": "hetero" if mode == "specified" else "const"},
                    "cons": None, "options": {"max_fun_evals": 62, "noise_final_samples": 3}, "seed": 12,
                    "tags": ["c10base", mode]})
    out.append({"id": "f_detcons", "D": 2, "geom": S.box_geom(2, -5, 5, -3, 3, x0=[0.5, 0.5]), "target": tq,
                "noise": {"mode": "det"}, "cons": {"family": "halfspace", "w": [1.0, 1.0], "b": 2.0},
                "options": {"max_fun_evals": 40}, "seed": 13, "tags": ["c10base", "cons"]})
    return out


def check_C10(tier):
    import copy
    bases = _c10_bases()
    ref = run_panel(bases, name=f"c10ref-{tier}")
    scs = []
    positions_by_kind = {}
    for bi, b in enumerate(bases):
        kinds = [(e["n"], e["kind"]) for e in ref["events"][bi] if e["e"] == "Eval" and e["outcome"] == "ok"]
        if any(c for c in ref["verdicts"][bi] if c[0].startswith("C09")):
            raise MachineryError("C10 reference run did not complete: %s" % ref["verdicts"][bi])
        bykind = {}
        for n, k in kinds:
            bykind.setdefault(k, []).append(n)
        faults = SPEC_FAULTS if b["noise"]["mode"] == "specified" else VAL_FAULTS
        for k, ns in bykind.items():
            if tier == "quick":
                pick = sorted({ns[0], ns[len(ns) // 2], ns[-1]})
                if b["id"] in ("f_detcons",):
                    pick = pick[:1]
            else:
                pick = ns
            for n in pick:
                for fk in (faults if (tier == "thorough" or b["id"] != "f_detcons") else faults[:3]):
                    sc = copy.deepcopy(b)
                    sc["id"] = f"{b['id']}_k{n}_{fk}"
                    sc["faults"] = {"target": {str(n): fk}}
                    sc["tags"] = ["fault", k, fk, b["noise"]["mode"]]
                    scs.append(sc)
                    positions_by_kind[(b["noise"]["mode"], k)] = positions_by_kind.get((b["noise"]["mode"], k), 0) + 1

    def post(v, results):
        v.coverage["fault_positions_by_mode_and_kind"] = {f"{m}/{k}": c for (m, k), c in sorted(positions_by_kind.items())}
        v.coverage["fault_kinds"] = {"value_modes": VAL_FAULTS, "specified": SPEC_FAULTS}
        v.coverage["exhaustive"] = tier == "thorough"
    v = run_level_check("C10", tier, [], level="fault_enumeration", design_cfgs=("BadsRun.cfg",),
                        extra_panels=[("c10ref", bases), ("c10faults", scs)], post=post)
    v.coverage["rule"] = ("fault injected at call index k of a reference run for every position kind "
                          "(x0, noise test, initial design, search, poll, final re-sampling) x every fault kind x noise mode; "
                          "quick: first/middle/last position of each kind, thorough: every k; "
                          "distinct = distinct (spec actions exercised, tags)")
    return v


def check_C14run(tier):
    return run_level_check("C14", tier, ["core_det", "core_noisy", "optvar", "optvar2"], design_cfgs=())


def check_C15(tier):
    # "whenever the surrogate is (re)fitted": also when fit attempts fail and the retry path shrinks its working copy
    # of the training set (consecutive LinAlgErrors injected at GP.fit, as in C16)
    from . import scenarios as S
    box = S.box_geom(2, x0=[2.0, -1.0])
    tq = {"family": "quad", "min": [0.5, 0.8], "eig": [1.0, 6.0], "rot_seed": 9}
    fscs = []
    pats = [(1, 2), (2, 3), (5, 6, 7), (3, 4, 5, 6)] if tier == "quick" else \
        [(1, 2), (2, 3), (4, 5), (5, 6, 7), (3, 4, 5, 6), (1, 2, 3), (6, 7), (2, 3, 4, 5)]
    for mode in ("det", "declared", "specified"):
        noise = {"mode": mode, "sigma": 0.3, "sd_kind": "hetero" if mode == "specified" else "const"}
        for p in pats:
            fscs.append({"id": f"h_{mode}_" + "_".join(map(str, p)), "D": 2, "geom": box, "target": tq, "noise": noise,
                         "cons": None, "options": {"max_fun_evals": 70, "noise_final_samples": 2}, "seed": 21,
                         "faults": {"fit": list(p)}, "tags": ["fitfault", mode, f"n{len(p)}"]})
    return run_level_check("C15", tier, ["core_det", "core_noisy", "cons", "optvar2"], design_cfgs=(),
                           extra_panels=[("c15faults", fscs)])


def check_C17run(tier):
    return run_level_check("C17", tier, ["core_det", "core_noisy", "cons"], design_cfgs=())


def check_C18run(tier):
    return run_level_check("C18", tier, ["core_det", "core_noisy", "cons", "steer", "script", "optvar"], design_cfgs=("BadsRun.cfg",))


def check_C14(tier):
    from . import comp_polldirs
    v = check_C14run(tier)
    st, cases = comp_polldirs.run(v, tier)
    v.coverage["states"] += st
    v.coverage["transitions"] += cases
    v.coverage["exhaustive_component"] = "every outcome of the generator's random choices for D<=3, n in {1,2,4}"
    return v


def check_C17(tier):
    from . import comp_candfilter
    v = check_C17run(tier)
    st, cases = comp_candfilter.run(v, tier)
    v.coverage["states"] += st
    v.coverage["transitions"] += cases
    v.coverage["exhaustive_component"] = "every input of the lattice instance {-1..2}^D, D<=2 (candidates, evaluated subset, infeasible subset, proj)"
    return v


def check_C12(tier):
    from . import comp_funclog
    v = run_level_check("C12", tier, ["core_det", "core_noisy"], design_cfgs=())
    st, cases = comp_funclog.run(v, tier)
    v.coverage["states"] += st
    v.coverage["transitions"] += cases
    return v


# ---------------------------------------------------------------------------
# C16: GP-fit fault enumeration (patterns generated by TLC from GPTrain.tla)
# ---------------------------------------------------------------------------
def _gptrain_cfg(nfit, maxfaults, hasnoise, shrink=True, n0=5, guard=True):
    return ("SPECIFICATION Spec\nCONSTANTS\n  NFit = %d\n  MaxFaults = %d\n  NRefit = 3\n  NTryFit = 10\n"
            "  RemoveAfter = 1\n  N0 = %d\n  HasNoise = %s\n  ShrinkNoise = %s\n  GuardSingle = %s\n"
            "INVARIANT FitArgsConsistent\nINVARIANT NeverAborts\nINVARIANT FitSetNonEmpty\nPROPERTY RunCompletes\n"
            % (nfit, maxfaults, n0, "TRUE" if hasnoise else "FALSE", "TRUE" if shrink else "FALSE",
               "TRUE" if guard else "FALSE"))


def check_C16(tier):
    import copy
    import os
    import shutil
    from .tlaval import parse_dump
    from . import scenarios as S
    v0_states = 0
    patterns = None
    dinfo = []
    for hasnoise in (True, False):
        r = run_tlc("GPTrain", cfg=_gptrain_cfg(8, 4, hasnoise), timeout=600, dump="out", keep=True)
        dinfo.append({"spec": "GPTrain", "hasnoise": hasnoise, **r.summary()})
        if not r.ok:
            shutil.rmtree(r.workdir, ignore_errors=True)
            if r.violated:
                vv = Verdict("C16", tier, "fault_enumeration")
                vv.violation("C16.design_model:" + ",".join(r.violated), site="GPTrain.tla", where=str(hasnoise))
                return vv
            raise MachineryError("GPTrain TLC failed: %s %s" % (r.summary(), r.output[-1200:]))
        v0_states += r.distinct_states
        if patterns is None:
            sts = parse_dump(os.path.join(r.workdir, "out.dump"))
            patterns = sorted({tuple(sorted(st["pattern"])) for st in sts}, key=lambda p: (len(p), p))
        shutil.rmtree(r.workdir, ignore_errors=True)

    def consecutive(p):
        return len(p) >= 2 and all(b - a == 1 for a, b in zip(p, p[1:]))
    if tier == "quick":
        sel = [p for p in patterns if len(p) == 1]
        sel += [p for p in patterns if consecutive(p)]
        rest = [p for p in patterns if len(p) in (2, 3) and not consecutive(p)]
        sel += rest[:: max(1, len(rest) // 14)]
        patterns_used = sorted(set(sel), key=lambda p: (len(p), p))
    else:
        patterns_used = patterns
    box = S.box_geom(2, x0=[2.0, -1.0])
    tq = {"family": "quad", "min": [0.5, 0.8], "eig": [1.0, 6.0], "rot_seed": 9}
    scs = []
    for mode in ("det", "declared", "specified"):
        noise = {"mode": mode, "sigma": 0.3, "sd_kind": "hetero" if mode == "specified" else "const"}
        for p in patterns_used:
            if not p:
                continue
            scs.append({"id": f"g_{mode}_" + "_".join(map(str, p)), "D": 2, "geom": box, "target": tq,
                        "noise": noise, "cons": None,
                        "options": {"max_fun_evals": 60, "noise_final_samples": 2}, "seed": 21,
                        "faults": {"fit": list(p)}, "tags": ["fitfault", mode, f"n{len(p)}",
                                                            "consecutive" if consecutive(p) else "scattered"]})
    # second base problem (deterministic): a curved valley whose first local refit sees a 5-point set with
    # a different closest-pair / worst-point structure (the drop sequence 5 -> 3 -> 1 instead of 5 -> 3 -> 2 -> 1);
    # consecutive runs only -- they are what shrinks one training set repeatedly
    box_r = {"lb": [-5, -5], "ub": [5, 5], "plb": [-2, -2], "pub": [2, 2], "x0": [-1.0, 1.2]}
    for p in patterns_used:
        if p and (consecutive(p) or len(p) == 1) and (tier == "thorough" or len(p) >= 3 or p[0] <= 2):
            scs.append({"id": "g_rosen_" + "_".join(map(str, p)), "D": 2, "geom": box_r, "target": {"family": "rosen"},
                        "noise": {"mode": "det"}, "cons": None, "options": {"max_fun_evals": 45, "gp_warnings": True}, "seed": 11,
                        "faults": {"fit": list(p)}, "tags": ["fitfault", "det", "rosen", "gp_warnings", f"n{len(p)}",
                                                            "consecutive" if consecutive(p) else "single"]})
    # third base problem (deterministic): a coarsely quantised bowl -- the local training sets hold exactly equal
    # values, so "closest pair" and "above the 95th percentile" are decided on ties
    for p in patterns_used:
        if p and consecutive(p) and (tier == "thorough" or p[0] <= 3):
            scs.append({"id": "g_plat_" + "_".join(map(str, p)), "D": 2, "geom": box,
                        "target": {"family": "plateau", "min": [0.4, 0.6], "q": 0.25},
                        "noise": {"mode": "det"}, "cons": None, "options": {"max_fun_evals": 45}, "seed": 5,
                        "faults": {"fit": list(p)}, "tags": ["fitfault", "det", "plateau", f"n{len(p)}", "consecutive"]})
    injected = {}

    def post(v, results):
        # every planned fault must actually have been injected (invocation reached)
        for name, scs_, res in results:
            for i, sc in enumerate(scs_):
                inj = sum(1 for e in res["events"][i] if e["e"] == "FitAttempt" and e["injected"])
                injected[sc["id"]] = (inj, len(sc["faults"]["fit"]))
        v.coverage["fault_patterns"] = len(patterns_used)
        v.coverage["patterns_total_in_model"] = len(patterns)
        v.coverage["faults_planned_vs_injected"] = {
            "runs_with_all_faults_injected": sum(1 for a, b in injected.values() if a == b),
            "runs": len(injected)}
        v.coverage["gptrain_model"] = dinfo
        v.coverage["exhaustive"] = tier == "thorough"
    # "all other guarantees continue to hold": every clause of the bounds / budget / truthful-result
    # properties counts for C16 on a faulted run
    v = run_level_check("C16", tier, [], level="fault_enumeration", design_cfgs=(),
                        extra_panels=[("c16faults", scs)], post=post,
                        clause_prefixes=["C16.", "C09.", "C01.", "C03.", "C04.", "C05."])
    v.coverage["states"] += v0_states
    v.coverage["gptrain_model_constants"] = "NFit=8 MaxFaults=4 NRefit=3 NTryFit=10 RemoveAfter=1 N0=5 GuardSingle=TRUE"
    v.coverage["rule"] = ("fault patterns over the first 8 GP.fit invocations enumerated by TLC from GPTrain.tla "
                          "(singles, runs of 2-4, scattered pairs/triples; thorough: all patterns with <= 4 faults) "
                          "x {deterministic, declared noise, specified noise}; GP.fit raises LinAlgError at exactly those invocations")
    return v


def check_C08(tier):
    from . import comp_bounds
    v = Verdict("C08", tier, "model_checking")
    st, cases = comp_bounds.run(v, tier)
    v.coverage.update({"states": st, "transitions": cases, "traces_validated_against_impl": cases,
                       "evaluations": cases, "samples": v.coverage.get("bounds_samples", []),
                       "exhaustive": True,
                       "rule": "every canonical one-coordinate definition (special-value mask x weak ordering of finite fields) "
                               "x value maps x spellings; D=2,3 products of class representatives"})
    v.coverage["distinct_nontrivial"] = st
    v.assumptions.append("validity is transcribed from the property statement (BoundsCheck.tla), not from the code")
    return v


# ---------------------------------------------------------------------------
# C06: per-run clause by the spec; population clauses measured on a trace-validated panel
# ---------------------------------------------------------------------------
def _c06_panel(tier):
    import math
    from . import scenarios as S
    from .common import seed as _seed
    out = []
    for rep in range(1 if tier == "quick" else 2):
        r = S.rnd(("c06", _seed(), rep))
        for i in range(60):
            D = 1 + (i % 5)
            mn = [round(r.uniform(-4, 4), 4) for _ in range(D)]
            eig = [1.0] + [round(math.exp(r.uniform(0, math.log(100.0))), 4) for _ in range(D - 1)]
            if D > 1:
                eig[-1] = round(r.choice([eig[-1], 100.0]), 4)
            x0 = [round(r.uniform(-5, 5), 4) for _ in range(D)]
            out.append({"id": f"q{rep}_{i}", "D": D, "geom": S.box_geom(D, -10, 10, -5, 5, x0=x0),
                        "target": {"family": "quad", "min": mn, "eig": eig, "rot_seed": r.randrange(10 ** 6)},
                        "noise": {"mode": "det"}, "cons": None, "options": {},
                        "seed": r.randrange(10 ** 6), "tags": ["c06", f"D{D}"]})
    return out


def check_C06(tier):
    import statistics
    scs = _c06_panel(tier)
    stats = {}

    def post(v, results):
        for name, scs_, res in results:
            gaps, evals_to, acts = [], [], {}
            for i, sc in enumerate(scs_):
                summ = res["summaries"][i]
                if "fval" not in summ:
                    v.violation("C06.run_completed", site="Result", where=f"{name}/{sc['id']}",
                                detail={"summary": {k: summ.get(k) for k in ("crash", "frame", "rejected")}})
                    continue
                gaps.append(summ["fval"])          # true minimum of the family is 0
                best = float("inf")
                n_to = None
                for k, y in enumerate(summ["ys"], 1):
                    best = min(best, y)
                    if best <= 1e-2:
                        n_to = k
                        break
                evals_to.append((n_to if n_to is not None else 10 ** 9) / sc["D"])
                for e in res["events"][i]:
                    if e["e"] == "SearchEnd" and e["nev"] >= 1:
                        key = "search_success" if e["impsuff"] else ("search_incremental" if e["imppos"] else "search_failure")
                        acts[key] = acts.get(key, 0) + 1
                    elif e["e"] == "PollEnd":
                        key = "poll_good" if e["good"] else "poll_refine"
                        acts[key] = acts.get(key, 0) + 1
            n = len(gaps)
            within = sum(1 for g in gaps if g <= 1e-3)
            med = statistics.median(evals_to) if evals_to else float("inf")
            stats.update(runs=n, within_1e3=within, frac_within=round(within / max(n, 1), 4),
                         median_evals_to_1e2_per_D=med, worst_gap=max(gaps) if gaps else None,
                         outcome_actions=acts)
            if n < 60:
                v.violation("C06.panel_size", site="panel", where=name, detail={"runs": n})
            if within < 0.9 * n:
                v.violation("C06.population_within_1e-3", site="panel", where=name,
                            detail={"within": within, "runs": n})
            if med > 40:
                v.violation("C06.population_median_evals", site="panel", where=name,
                            detail={"median_evals_to_1e-2_per_D": med})
            for need in ("search_success", "search_incremental", "poll_good"):
                if acts.get(need, 0) == 0:
                    v.violation("C06.outcome_action_never_exercised:" + need, site="panel", where=name,
                                detail={"actions": acts})
        v.coverage["panel_statistics"] = stats
        v.coverage["explanation"] = (
            "Per-run clause (result never worse than the mesh-snapped starting point, C06.result_leq_start) decided by TLC on every "
            "trace of the panel. The population clauses (>= 90% of >= 60 random rotated quadratics within 1e-3; panel median "
            "evaluations-to-1e-2 <= 40*D) are statistical statements no TLA+ specification decides: they are MEASURED on the same "
            "runs, every one of which was validated as a behaviour of BadsRunTrace (all C01-C19 run-level clauses), and the panel "
            "must exercise SearchEnd(success), SearchEnd(incremental) and PollEnd(good). Measured: " + repr(stats))
    v = run_level_check("C06", tier, [], level="other", design_cfgs=(),
                        extra_panels=[("c06panel", scs)], post=post,
                        clause_prefixes=["C06.", "C03.controller_follows_spec", "C09."])
    return v


def check_C11(tier):
    from . import comp_vartransf
    v = Verdict("C11", tier, "model_checking")
    st, cases = comp_vartransf.run(v, tier)
    v.coverage.update({"states": st, "transitions": cases, "traces_validated_against_impl": cases,
                       "evaluations": cases, "distinct_nontrivial": v.coverage.get("vartransf_bound_sets", 2),
                       "samples": v.coverage.get("vartransf_samples", []), "exhaustive": True,
                       "rule": "every bound quadruple x test point of the integer grid (VarTransf.tla) and of the decade grid "
                               "1e-12..1e12 (VarTransfDec.tla), alone and inside mixed D=2,3 transformers; random off-grid points "
                               "and points one ulp / 1e-9 outside the bounds"})
    v.assumptions.append("numeric accuracy off the grid (round trip < 1e-9 of the box width) is a guard evaluated by the driver, not a TLC decision")
    return v


def check_C20(tier):
    from . import comp_options
    v = Verdict("C20", tier, "model_checking")
    st, cases = comp_options.run(v, tier)
    v.coverage.update({"states": st, "transitions": cases, "traces_validated_against_impl": v.coverage.get("options_schedules_replayed", 0),
                       "evaluations": cases, "distinct_nontrivial": v.coverage.get("options_schedules_replayed", 2),
                       "samples": v.coverage.get("options_samples", []), "exhaustive": tier == "thorough",
                       "rule": "all orders of constructing/running three instances (D=2,3,1; different override sets; noisy/deterministic) "
                               "enumerated by TLC from Options.tla and replayed in one process; every option name of the two ini files "
                               "overridden with changed and falsy sentinel values; defaults recomputed independently from the ini text"})
    return v


def check_C07(tier):
    from . import comp_repro
    v = Verdict("C07", tier, "model_checking")
    st, cases = comp_repro.run(v, tier)
    v.coverage.update({"states": st, "transitions": cases, "traces_validated_against_impl": cases,
                       "evaluations": cases, "distinct_nontrivial": v.coverage.get("repro_schedules_replayed", 2),
                       "samples": v.coverage.get("repro_samples", []), "exhaustive": tier == "thorough",
                       "rule": "every schedule (<= 6 steps) of constructing/running the instance under test among foreign RNG draws, "
                               "foreign constructions (seeded / unseeded, other D and options) and foreign runs, enumerated by TLC from "
                               "Repro.tla; each replayed in a fresh process for 4 problem kinds (deterministic/noisy x x0 given/omitted) and "
                               "compared bit for bit with the two-step reference"})
    return v


def check_C19(tier):
    from . import comp_iterhist
    v = check_C19run(tier)
    st, cases = comp_iterhist.run(v, tier)
    v.coverage["states"] += st
    v.coverage["transitions"] += cases
    return v


def check_C18(tier):
    from . import comp_hedge, comp_esarchive
    v = check_C18run(tier)
    st, cases = comp_hedge.run(v, tier)
    v.coverage["states"] += st
    v.coverage["transitions"] += cases
    st, cases = comp_esarchive.run(v, tier)
    v.coverage["states"] += st
    v.coverage["transitions"] += cases
    return v
