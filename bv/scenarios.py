"""Scenario descriptions: JSON-serialisable definitions from which a BADS run
is reconstructed exactly (problem geometry, target family, noise mode,
constraints, options, seed, fault plan)."""
import math
import random

import numpy as np

INF = float("inf")


def _f(v):
    if isinstance(v, str):
        return {"inf": INF, "-inf": -INF, "nan": float("nan")}[v]
    return float(v)


def arr(v):
    return np.array([[_f(x) for x in v]], dtype=float)


# --------------------------------------------------------------------------
# targets (functions of the ORIGINAL coordinates)
# --------------------------------------------------------------------------
def _rotation(D, rs):
    if D == 1:
        return np.eye(1)
    A = rs.normal(size=(D, D))
    Q, R = np.linalg.qr(A)
    return Q * np.sign(np.diag(R))


def make_target(spec, D):
    """Return f(x)->float (noise-free part) for a target spec."""
    fam = spec["family"]
    if fam == "quad":
        rs = np.random.RandomState(spec.get("rot_seed", 0))
        Q = _rotation(D, rs)
        eig = np.array(spec.get("eig", [1.0] * D), dtype=float)
        A = Q @ np.diag(eig) @ Q.T
        m = np.array(spec["min"], dtype=float)
        off = float(spec.get("offset", 0.0))

        def f(x):
            d = np.asarray(x, dtype=float).ravel() - m
            return float(d @ A @ d) + off
        return f
    if fam == "absval":
        m = np.array(spec["min"], dtype=float)
        w = np.array(spec.get("w", [1.0] * D), dtype=float)

        def f(x):
            return float(np.sum(w * np.abs(np.asarray(x, dtype=float).ravel() - m)))
        return f
    if fam == "plateau":
        m = np.array(spec["min"], dtype=float)
        q = float(spec.get("q", 4.0))

        def f(x):
            d = np.asarray(x, dtype=float).ravel() - m
            return float(math.floor(float(d @ d) * q) / q)
        return f
    if fam == "script":
        # value by CALL ORDER, not by position: the n-th call returns a value in the scripted relation to the
        # running minimum of the values returned so far (scripts come from TLC behaviours of BadsRun, see
        # specs/BadsRunSim.tla): W worse, T tie, I better by 1e-6 (< tol_fun), S better by 4 (> every threshold)
        script = list(spec["script"])
        st = {"n": 0, "m": None}

        def f(x):
            st["n"] += 1
            n = st["n"]
            d = script[n - 1] if n <= len(script) else "W"
            if st["m"] is None:
                val = 100.0
            elif d == "T":
                val = st["m"]
            elif d == "I":
                val = st["m"] - 1e-6
            elif d == "S":
                val = st["m"] - 4.0
            else:
                val = st["m"] + 1.0 + 0.015625 * (n % 7)
            st["m"] = val if st["m"] is None else min(st["m"], val)
            return float(val)
        return f
    if fam == "facevalley":
        # first coordinate pushed against its lower bound, the next two follow a curved valley: the run alternates
        # successful polls (mesh expands) and failed polls (mesh refines) while the incumbent sits on a face of the box
        c = float(spec.get("c", 1.6))

        def f(x):
            x = np.asarray(x, dtype=float).ravel()
            return float((x[0] + c) ** 2 + 100.0 * (x[2] - x[1] ** 2) ** 2 + (1.0 - x[1]) ** 2)
        return f
    if fam == "faceslope":
        # first coordinate pushed against its lower bound while the value keeps falling steeply ALONG that face:
        # polls succeed (mesh expands) with the incumbent sitting on the face
        c = float(spec.get("c", 1.6))
        sl = float(spec.get("slope", 3.0))

        def f(x):
            x = np.asarray(x, dtype=float).ravel()
            return float((x[0] + c) ** 2 - sl * x[1] + 0.5 * float(np.sum(x[2:] ** 2)))
        return f
    if fam == "rosen":
        def f(x):
            x = np.asarray(x, dtype=float).ravel()
            if x.size == 1:
                return float((1 - x[0]) ** 2)
            return float(np.sum(100.0 * (x[1:] - x[:-1] ** 2) ** 2 + (1 - x[:-1]) ** 2))
        return f
    if fam == "logquad":
        c = np.array(spec["min"], dtype=float)   # minimiser (positive)

        def f(x):
            x = np.asarray(x, dtype=float).ravel()
            return float(np.sum((np.log10(np.maximum(x, 1e-300)) - np.log10(c)) ** 2))
        return f
    if fam == "ripple":            # smooth bowl + deterministic high-frequency ripple
        m = np.array(spec["min"], dtype=float)
        amp = float(spec.get("amp", 1.0))
        freq = float(spec.get("freq", 37.0))

        def f(x):
            d = np.asarray(x, dtype=float).ravel() - m
            return float(d @ d + amp * np.sum(np.sin(freq * d + np.arange(d.size))))
        return f
    if fam == "linear":
        w = np.array(spec["w"], dtype=float)

        def f(x):
            return float(w @ np.asarray(x, dtype=float).ravel())
        return f
    if fam == "const":
        c = float(spec.get("c", 1.0))
        return lambda x: c
    raise ValueError("unknown target family " + fam)


def make_noise_sd(spec, D):
    """SD function for noisy modes: returns sd(x)."""
    kind = spec.get("sd_kind", "const")
    s = float(spec.get("sigma", 1.0))
    if kind == "const":
        return lambda x: s
    if kind == "hetero":
        return lambda x: s * (1.0 + 0.5 * float(np.sum(np.abs(np.sin(np.asarray(x).ravel())))))
    raise ValueError(kind)


# --------------------------------------------------------------------------
# constraints: violation functions on (N,D) arrays of ORIGINAL coordinates
# --------------------------------------------------------------------------
def make_cons(spec, D):
    if spec is None:
        return None
    fam = spec["family"]
    if fam == "halfspace":          # violated when w.x > b
        w = np.array(spec["w"], dtype=float)
        b = float(spec["b"])
        if spec.get("float"):       # returns the violation AMOUNT (> 0 violated, 0 on the boundary is feasible)
            return lambda X: (np.atleast_2d(X) @ w) - b
        return lambda X: (np.atleast_2d(X) @ w) > b
    if fam == "ball":               # violated outside the ball
        c = np.array(spec["c"], dtype=float)
        r = float(spec["r"])
        if spec.get("float"):
            return lambda X: np.sum((np.atleast_2d(X) - c) ** 2, axis=1) - r * r
        return lambda X: np.sum((np.atleast_2d(X) - c) ** 2, axis=1) > r * r
    if fam == "slab":               # |w.x - b| > h violated (thin slab)
        w = np.array(spec["w"], dtype=float)
        b = float(spec["b"])
        h = float(spec["h"])
        return lambda X: np.abs(np.atleast_2d(X) @ w - b) > h
    if fam == "annulus":            # feasible r1 <= |x-c| <= r2
        c = np.array(spec["c"], dtype=float)
        r1 = float(spec["r1"])
        r2 = float(spec["r2"])

        def g(X):
            d = np.sqrt(np.sum((np.atleast_2d(X) - c) ** 2, axis=1))
            return (d < r1) | (d > r2)
        return g
    if fam == "gex":                # g(x) = s*(w.x - w.x0ref) > 0 violated
        w = np.array(spec["w"], dtype=float)
        ref = float(spec["ref"])
        sgn = float(spec["sign"])
        return lambda X: sgn * (np.atleast_2d(X) @ w - ref) > 0
    raise ValueError(fam)


# --------------------------------------------------------------------------
# options normalisation
# --------------------------------------------------------------------------
def _outfcn_stop(x, state):
    return True


def _outfcn_never(x, state):
    return False


def sched_asym(t, n_vars):
    """a user-supplied annealing schedule for the LCB acquisition, deliberately not symmetric in (t, n_vars):
    documented call order is schedule(t, n_vars) with t = func_count + 1"""
    return float(np.sqrt(0.4 * np.log(n_vars * t ** 2 * np.pi ** 2 / 0.6)) * (1.0 + 0.25 * n_vars) / (1.0 + 0.01 * t))


def build_options(sc):
    o = dict(sc.get("options", {}))
    if o.pop("_search_acq_schedule", None) == "asym":
        o["search_acq_fcn"] = ("acq_LCB", sched_asym)
    of = o.pop("_output_fcn", None)
    if of == "stop_init":
        o["output_fcn"] = _outfcn_stop
    elif of == "never":
        o["output_fcn"] = _outfcn_never
    o.setdefault("display", "off")
    o.setdefault("random_seed", int(sc.get("seed", 0)))
    mode = sc.get("noise", {}).get("mode", "det")
    if mode == "declared":
        o["uncertainty_handling"] = True
    elif mode == "specified":
        o["uncertainty_handling"] = True
        o["specify_target_noise"] = True
    return o


def geom_arrays(sc):
    g = sc["geom"]
    D = sc["D"]
    out = {}
    for k in ("lb", "ub", "plb", "pub", "x0"):
        v = g.get(k)
        out[k] = None if v is None else arr(v)
    return out


# --------------------------------------------------------------------------
# generic generators used by panels
# --------------------------------------------------------------------------
def rnd(seed_tuple):
    return random.Random(repr(seed_tuple))


def box_geom(D, lo=-10.0, hi=10.0, plo=-5.0, phi=5.0, x0=None):
    return {"lb": [lo] * D, "ub": [hi] * D, "plb": [plo] * D, "pub": [phi] * D,
            "x0": x0 if x0 is None else list(x0)}
