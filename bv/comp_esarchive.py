"""C18 component check: specs/ESArchive.tla enumerates, per generation, how many
candidates survive the filter and their acquisition values; each case is
replayed into the real ESSearchWM / ESSearchELL with a scripted filter and a
scripted acquisition function, and the returned acquisition value is compared
with the spec's global minimum."""
import os
import shutil

import numpy as np

from .common import MachineryError
from .tlaval import parse_dump
from .tlc import run_tlc


class _FL:
    func_count = 7


class _GP:
    def __init__(self, nvars):
        rs = np.random.RandomState(3)
        self.X = rs.normal(size=(6, nvars)) * 0.3
        self.y = rs.normal(size=(6, 1))
        self.temporary_data = {"poll_scale": np.ones(nvars), "len_scale": 1.0}


def _run_case(cls_name, batches, mu, lam, ngen):
    import pybads.search.es_search as ES
    nvars = 2
    gen = {"g": 0}

    def fake_filter(U, lb, ub, tol, fl, proj=True, cons=None):
        g = gen["g"]
        n = len(batches[g]) if g < len(batches) else 0
        return np.atleast_2d(U)[:n].copy()

    def fake_acq(xi, fc, gp, sqrt_beta=None):
        g = gen["g"]
        z = np.array(batches[g] if g < len(batches) else [], dtype=float).reshape(-1, 1)
        gen["g"] += 1
        n = np.atleast_2d(xi).shape[0] if np.size(xi) else 0
        assert z.shape[0] == n, (z.shape, n)
        return z, np.zeros((n, 1)), np.ones((n, 1))
    saved = (ES.contraints_check, ES.acq_fcn_lcb)
    ES.contraints_check = fake_filter
    ES.acq_fcn_lcb = fake_acq
    try:
        opts = {"poll_mesh_multiplier": 2.0, "es_start": 0.25, "n_search_iter": ngen,
                "search_acq_fcn": ("acq_LCB", None), "es_beta": 1}
        es = getattr(ES, cls_name)(mu, lam, opts)
        ostate = {"mesh_size": 1.0, "search_factor": 1.0, "search_mesh_size": 2.0 ** -10, "tol_mesh": 1e-6,
                  "lb_search": np.full((1, nvars), -4.0), "ub_search": np.full((1, nvars), 4.0),
                  "lb": np.full((1, nvars), -4.0), "ub": np.full((1, nvars), 4.0), "scale": 1.0,
                  "periodic_vars": np.zeros((1, nvars), dtype=bool)}
        np.random.seed(5)
        with np.errstate(all="ignore"):
            us, z = es(np.zeros(nvars), ostate["lb"], ostate["ub"], _FL(), _GP(nvars), ostate, True, None)
        return us, z
    finally:
        ES.contraints_check, ES.acq_fcn_lcb = saved


def _chunk(jobs):
    vs = []
    nc = 0
    nb = 0
    smp = []
    for (si, batches, want, mu, lam, ngen, tier) in jobs:
        for cls_name in ("ESSearchWM", "ESSearchELL"):
            if tier == "quick" and cls_name == "ESSearchELL" and si % 4:
                continue
            nc += 1
            where = f"{cls_name} mu={mu} lambda={lam} generations={batches}"
            try:
                us, z = _run_case(cls_name, batches, mu, lam, ngen)
            except AssertionError:
                nb += 1
                continue
            except Exception as e:
                if len(vs) < 30:
                    vs.append(("C18.es_call_raises", f"ESArchive:{cls_name}", where, {"error": repr(e)[:160]}))
                continue
            zz = np.asarray(z, dtype=float).ravel()
            if want == -1:
                if zz.size != 0 and np.asarray(us).size != 0 and len(vs) < 30:
                    vs.append(("C18.search_picks_argmin", f"ESArchive:{cls_name}", where,
                               {"returned_z": zz.tolist(), "expected": "nothing survived"}))
            elif (zz.size == 0 or float(zz[0]) != float(want)) and len(vs) < 30:
                vs.append(("C18.search_picks_argmin", f"ESArchive:{cls_name}", where,
                           {"returned_z": zz.tolist(), "global_min": want}))
            if si % 1500 == 7 and len(smp) < 2:
                smp.append({"strategy": cls_name, "generations": batches, "global_min": want, "returned_z": zz.tolist()})
    return vs, nc, nb, smp


def run(verdict, tier):
    total_states = 0
    cases = 0
    samples = []
    configs = [(3, 3, 2, 3), (3, 3, 3, 2), (2, 3, 3, 2)] if tier == "quick" else [(3, 3, 2, 3), (3, 3, 3, 2), (2, 3, 3, 2), (4, 3, 3, 2), (3, 4, 3, 2)]
    for (mu, lam, ngen, zmax) in configs:
        cfg = ("SPECIFICATION Spec\nCONSTANTS\n  Mu = %d\n  Lam = %d\n  NGen = %d\n  ZMax = %d\n"
               "INVARIANT BestAlwaysKept\nINVARIANT ReturnIsGlobalMin\n" % (mu, lam, ngen, zmax))
        r = run_tlc("ESArchive", cfg=cfg, timeout=900, dump="out", keep=True)
        if not r.ok:
            shutil.rmtree(r.workdir, ignore_errors=True)
            if r.violated:
                verdict.violation("C18.design_model:" + ",".join(r.violated), site="ESArchive.tla", where=str((mu, lam, ngen)))
                continue
            raise MachineryError("ESArchive TLC failed: %s\n%s" % (r.summary(), r.output[-1200:]))
        states = parse_dump(os.path.join(r.workdir, "out.dump"))
        shutil.rmtree(r.workdir, ignore_errors=True)
        total_states += r.distinct_states
        import multiprocessing as mp
        jobs = [(si, [list(b) for b in st["batches"]], st["retz"], mu, lam, ngen, tier) for si, st in enumerate(states)]
        ctx = mp.get_context("fork")
        n = os.cpu_count() or 4
        size = max(1, len(jobs) // (n * 6))
        chunks = [jobs[i:i + size] for i in range(0, len(jobs), size)]
        with ctx.Pool(n) as pool:
            for vs, nc, nb, smp in pool.imap_unordered(_chunk, chunks):
                cases += nc
                if nb:
                    verdict.coverage["esarchive_script_breaks"] = verdict.coverage.get("esarchive_script_breaks", 0) + nb
                for (clause, site, where, detail) in vs:
                    verdict.violation(clause, site=site, where=where, detail=detail)
                for x in smp:
                    if len(samples) < 3:
                        samples.append(x)
        continue
        for si, st in enumerate(states):
            batches = [list(b) for b in st["batches"]]
            want = st["retz"]
            for cls_name in ("ESSearchWM", "ESSearchELL"):
                if tier == "quick" and cls_name == "ESSearchELL" and si % 4:
                    continue
                cases += 1
                where = f"{cls_name} mu={mu} lambda={lam} generations={batches}"
                try:
                    us, z = _run_case(cls_name, batches, mu, lam, ngen)
                except AssertionError as e:
                    # the code proposed a different number of offspring than the spec's rule:
                    # the scripted seams no longer fit -> cannot bind this case
                    verdict.coverage["esarchive_script_breaks"] = verdict.coverage.get("esarchive_script_breaks", 0) + 1
                    continue
                except Exception as e:
                    verdict.violation("C18.es_call_raises", site=f"ESArchive:{cls_name}", where=where,
                                      detail={"error": repr(e)[:160]})
                    continue
                zz = np.asarray(z, dtype=float).ravel()
                if want == -1:
                    if zz.size != 0 and np.asarray(us).size != 0:
                        verdict.violation("C18.search_picks_argmin", site=f"ESArchive:{cls_name}", where=where,
                                          detail={"returned_z": zz.tolist(), "expected": "nothing survived"})
                elif zz.size == 0 or float(zz[0]) != float(want):
                    verdict.violation("C18.search_picks_argmin", site=f"ESArchive:{cls_name}", where=where,
                                      detail={"returned_z": zz.tolist(), "global_min": want})
                if len(samples) < 3 and si % 1500 == 7:
                    samples.append({"strategy": cls_name, "generations": batches, "global_min": want,
                                    "returned_z": zz.tolist()})
    verdict.coverage.update({"esarchive_states": total_states, "esarchive_cases": cases, "esarchive_samples": samples})
    return total_states, cases
