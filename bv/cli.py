"""./check <id> [--tier quick|thorough] [--replay path]"""
import sys
import traceback

from . import common
from .common import MachineryError, tier_from_args


def registry():
    from . import runchecks as R
    reg = {
        "C01": R.check_C01, "C02": R.check_C02, "C03": R.check_C03, "C04": R.check_C04,
        "C05": R.check_C05, "C06": R.check_C06, "C13": R.check_C13, "C09": R.check_C09, "C10": R.check_C10, "C15": R.check_C15, "C07": R.check_C07, "C20": R.check_C20, "C11": R.check_C11, "C08": R.check_C08, "C16": R.check_C16, "C12": R.check_C12, "C14": R.check_C14, "C17": R.check_C17, "C18": R.check_C18, "C19": R.check_C19,
    }
    return reg


def main(argv):
    if not argv:
        print("usage: check <id> [--tier quick|thorough]")
        return 2
    prop = argv[0]
    tier = tier_from_args(argv)
    reg = registry()
    if prop == "--list":
        print(" ".join(sorted(reg)))
        return 0
    if prop == "--selftest":
        from . import selftest
        return selftest.main()
    if prop not in reg:
        print(f"no check registered for {prop}")
        return 2
    try:
        v = reg[prop](tier)
        return v.finish()
    except MachineryError as e:
        print("MACHINERY-FAILURE:", str(e)[-3000:])
        return 2
    except Exception:
        print("MACHINERY-FAILURE (unexpected):")
        traceback.print_exc()
        return 2


if __name__ == "__main__":
    sys.exit(main(sys.argv[1:]))
