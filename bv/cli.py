"""./check <id> [--tier quick|thorough] [--replay path]"""
import sys
import traceback

from . import common
from .common import MachineryError, tier_from_args


def registry():
    from . import runchecks as R
    reg = {
        "C01": R.check_C01, "C02": R.check_C02, "C03": R.check_C03, "C04": R.check_C04,
        "C05": R.check_C05, "C06": R.check_C06, "C13": R.check_C13, "C09": R.check_C09, "C10": R.check_C10, "C15": R.check_C15, "C07": R.check_C07, "C20": R.check_C20, "C11": R.check_C11, "C08": R.check_C08, "C16": R.check_C16, "C12": R.check_C12, "C14": R.check_C14, "C17": R.check_C17, "C18": R.check_C18, "C19": R.check_C19,
    }
    return reg


def replay(prop, path, tier):
    """re-run the scenarios of a violation bundle against the current tree and re-validate them"""
    import json
    from .common import Verdict
    from . import runchecks as R
    data = json.load(open(path))
    scs = []
    seen = set()
    for v in data.get("violations", []):
        sc = (v.get("detail") or {}).get("scenario")
        if sc and sc.get("id") not in seen:
            seen.add(sc.get("id"))
            scs.append(sc)
    if not scs:
        print("bundle holds no run scenario (component case): re-running the whole check")
        for v in data.get("violations", [])[:5]:
            print("  recorded:", v.get("clause"), v.get("site"), str(v.get("where"))[:200])
        return registry()[prop](tier).finish()
    print(f"replaying {len(scs)} scenario(s) from {path}")
    v = R.run_level_check(prop, tier, [], level="exploration", design_cfgs=(), extra_panels=[("replay", scs)])
    return v.finish()


def main(argv):
    if not argv:
        print("usage: check <id> [--tier quick|thorough]")
        return 2
    prop = argv[0]
    tier = tier_from_args(argv)
    reg = registry()
    if prop == "--list":
        print(" ".join(sorted(reg)))
        return 0
    if prop == "--selftest":
        from . import selftest
        return selftest.main()
    if prop not in reg:
        print(f"no check registered for {prop}")
        return 2
    try:
        if "--replay" in argv:
            return replay(prop, argv[argv.index("--replay") + 1], tier)
        v = reg[prop](tier)
        return v.finish()
    except MachineryError as e:
        print("MACHINERY-FAILURE:", str(e)[-3000:])
        return 2
    except Exception:
        print("MACHINERY-FAILURE (unexpected):")
        traceback.print_exc()
        return 2


if __name__ == "__main__":
    sys.exit(main(sys.argv[1:]))
