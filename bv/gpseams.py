"""Observers for the GP / search seams (properties C15, C16, C18).

All wrappers call the original with the original arguments and return its
result unchanged; the only alteration ever made is the *injection* of
numpy.linalg.LinAlgError from GP.fit at planned invocation indices (C16),
which is within that seam's contract (it is what a failed Cholesky raises).
"""
import traceback

import numpy as np


def _c(a):
    if a is None:
        return None
    return np.array(a, dtype=float, copy=True)


def _nlog(fl):
    """number of truly logged rows: the larger of the two row counters the logger keeps (Xn: last filled row,
    X_max_idx: the prefix the optimiser's consumers read); the observer must not trust the narrower view"""
    try:
        return int(min(max(int(fl.Xn), int(fl.X_max_idx)) + 1, fl.X.shape[0]))
    except Exception:
        return int(fl.X_max_idx + 1)


def _match_rows(X, y, fl):
    """For each training row find a log index with identical input and value.
    Returns (list of indices or -1, log X, log Y, log S)."""
    n = _nlog(fl)
    LX = fl.X[:n]
    LY = fl.Y[:n].ravel()
    idx = {}
    for j in range(n):
        idx.setdefault(LX[j].tobytes(), []).append(j)
    out = []
    used = set()
    yv = np.asarray(y, dtype=float).ravel()
    for i in range(np.atleast_2d(X).shape[0]):
        js = idx.get(np.ascontiguousarray(np.atleast_2d(X)[i], dtype=float).tobytes())
        hit = -1
        if js:
            # identical records (a point logged twice) are matched one-to-one
            for j in js:
                if j not in used and (LY[j] == yv[i] or (np.isnan(LY[j]) and np.isnan(yv[i]))):
                    hit = j
                    break
            if hit < 0:
                for j in js:
                    if LY[j] == yv[i] or (np.isnan(LY[j]) and np.isnan(yv[i])):
                        hit = j
                        break
            if hit < 0:
                hit = -2 - js[0]   # input matches a record, value does not
            else:
                used.add(hit)
        out.append(hit)
    return out


def _train_summary(rec, gp, fl, center, len_scale, site, specified):
    X = np.atleast_2d(gp.X)
    y = np.asarray(gp.y).ravel()
    rows = _match_rows(X, y, fl)
    n_unlogged = sum(1 for r in rows if r == -1)
    n_valmis = sum(1 for r in rows if r <= -2)
    s2_ok = True
    s2_len_ok = True
    n_s2_bad = 0
    if specified:
        s2 = None if gp.s2 is None else np.asarray(gp.s2, dtype=float).ravel()
        if s2 is None or s2.size != y.size:
            s2_len_ok = False
        else:
            S = fl.S[: _nlog(fl)].ravel()
            for i, r in enumerate(rows):
                if r >= 0:
                    want = S[r] ** 2
                    if not np.isclose(s2[i], want, rtol=1e-9, atol=0.0):
                        n_s2_bad += 1
            s2_ok = n_s2_bad == 0
    return dict(site=site, ntrain=int(X.shape[0]), n_unlogged=n_unlogged,
                n_valmis=n_valmis, s2_ok=bool(s2_ok), s2_len_ok=bool(s2_len_ok),
                n_s2_bad=int(n_s2_bad), rows=rows)


def install(rec, BB, ES, SH, GT, gpyreg):
    GP = gpyreg.GP
    rec.gp_ctx = []          # "init" / "local" while inside training functions
    rec.acq_predicts = None
    rec.es_ctx = None

    def specified():
        b = rec.bads
        return bool(b is not None and b.options.get("specify_target_noise"))

    # ---- GP.fit : count, check lengths, inject faults -------------------
    def mk_fit(orig):
        def w(gp, X=None, y=None, s2=None, hyp0=None, options=None, **kw):
            idx = rec.fit_idx
            rec.fit_idx += 1
            lenX = -1 if X is None else int(np.atleast_2d(X).shape[0])
            lenY = -1 if y is None else int(np.asarray(y).size)
            lenS = -1 if s2 is None else (1 if np.isscalar(s2) else int(np.asarray(s2).size))
            inj = idx in rec.ffaults
            ctx = rec.gp_ctx[-1] if rec.gp_ctx else "other"
            # position inside the enclosing _robust_gp_fit_ call (-1: not inside one)
            rfit = rec.rfit_id if rec.rfit_depth > 0 else -1
            rtry = -1
            if rfit >= 0:
                rtry = rec.rfit_try
                rec.rfit_try += 1
            if inj:
                rec.emit("FitAttempt", idx=idx, ctx=ctx, lenX=lenX, lenY=lenY, lenS2=lenS,
                         injected=True, outcome="LinAlgError", site=rec.site(), rfit=rfit, rtry=rtry)
                raise np.linalg.LinAlgError("injected fit failure at invocation %d" % idx)
            outcome = "ok"
            try:
                return orig(gp, X, y, s2, hyp0=hyp0, options=options, **kw)
            except BaseException as e:
                outcome = type(e).__name__
                raise
            finally:
                rec.emit("FitAttempt", idx=idx, ctx=ctx, lenX=lenX, lenY=lenY, lenS2=lenS,
                         injected=False, outcome=outcome, site=rec.site(), rfit=rfit, rtry=rtry)
        return w
    rec._patch(GP, "fit", mk_fit)

    # ---- _robust_gp_fit_ : numbers its fit attempts ------------------------
    rec.rfit_id = -1
    rec.rfit_depth = 0
    rec.rfit_try = 0

    def mk_robust(orig):
        def w(*a, **kw):
            rec.rfit_id += 1
            rec.rfit_depth += 1
            rec.rfit_try = 0
            try:
                return orig(*a, **kw)
            finally:
                rec.rfit_depth -= 1
        return w
    rec._patch(GT, "_robust_gp_fit_", mk_robust)

    # ---- GP.predict : remember outputs produced inside an acquisition call
    def mk_predict(orig):
        def w(gp, *a, **kw):
            r = orig(gp, *a, **kw)
            # single-point predictions inside a search / poll step: the GP estimate at a new point
            try:
                if rec.acq_predicts is None and rec.stack and rec.stack[-1] in ("search", "poll") and a:
                    xs = np.atleast_2d(np.asarray(a[0], dtype=float))
                    if xs.shape[0] == 1:
                        rec.emit("Predict1", site=rec.stack[-1], u=xs[0].copy(), mu=float(np.asarray(r[0]).ravel()[0]),
                                 s2=float(np.asarray(r[1]).ravel()[0]))
            except Exception:
                pass
            if rec.acq_predicts is not None:
                try:
                    rec.acq_predicts.append((_c(r[0]), _c(r[1])))
                except Exception:
                    pass
            return r
        return w
    rec._patch(GP, "predict", mk_predict)

    # ---- init_and_train_gp ----------------------------------------------
    def mk_init_train(orig):
        def w(hyp_dict, optim_state, function_logger, iteration_history, options, plb, pub):
            rec.gp_ctx.append("init")
            try:
                r = orig(hyp_dict, optim_state, function_logger, iteration_history, options, plb, pub)
            finally:
                rec.gp_ctx.pop()
            try:
                gp = r[0]
                s = _train_summary(rec, gp, function_logger, None, None, "init", specified())
                fl = function_logger
                s["n_logged"] = _nlog(fl)
                s["all_logged_used"] = bool(s["ntrain"] == int(np.sum(fl.X_flag)))
                rec.emit("GPTrainSet", **s)
            except Exception as e:
                rec.emit("ObserverError", what="init_train", err=repr(e), tb=traceback.format_exc()[-600:])
            return r
        return w
    rec._patch(BB, "init_and_train_gp", mk_init_train)

    # ---- get_grid_search_neighbors ---------------------------------------
    def mk_neigh(orig):
        def w(function_logger, u, gp, options, optim_state):
            ls = gp.temporary_data["len_scale"]
            er = gp.temporary_data["effective_radius"]
            ls_c = _c(ls)
            er_c = _c(er)
            r = orig(function_logger, u, gp, options, optim_state)
            try:
                fl = function_logger
                n = _nlog(fl)
                LX = fl.X[:n]
                uu = np.asarray(u, dtype=float).reshape(1, -1)
                d2 = np.sum(((LX - uu) / ls_c) ** 2, axis=1)
                U = np.atleast_2d(r[0])
                Y = np.asarray(r[1]).ravel()
                rows = _match_rows(U, Y, fl)
                dsel = np.array([d2[j] if j >= 0 else np.nan for j in rows])
                sorted_ok = bool(np.all(np.diff(dsel) >= -1e-12 * (1 + np.abs(dsel[:-1])))) if len(dsel) > 1 and not np.any(np.isnan(dsel)) else not np.any(np.isnan(dsel))
                chosen = set(j for j in rows if j >= 0)
                n_nearer_excluded = 0
                if len(dsel) and not np.any(np.isnan(dsel)):
                    dmax = np.max(dsel)
                    for j in range(n):
                        if j not in chosen and d2[j] < dmax * (1 - 1e-12) - 1e-300:
                            n_nearer_excluded += 1
                radius = float(options["gp_radius"]) * float(np.max(er_c))
                n_within = int(np.sum(d2 <= radius ** 2))
                ntr_min = int(options["n_train_min"])
                ntr_max = int(options["n_train_max"])
                buf = int(options["buffer_ntrain"])
                want = min(max(ntr_min, ntr_max - buf, min(ntr_max, n_within)), n)
                rec.emit("Neighbors", site=rec.site(), ntrain=int(U.shape[0]), want=int(want),
                         n_logged=int(n), n_within=n_within, ntrain_min=ntr_min, ntrain_max=ntr_max,
                         buffer=buf, sorted_ok=sorted_ok, n_nearer_excluded=int(n_nearer_excluded),
                         n_unmatched=int(sum(1 for j in rows if j < 0)),
                         n_dup_rows=int(len(rows) - len(set(rows))),
                         scalar_ls=bool(np.ndim(ls) == 0 or np.size(ls) == 1))
            except Exception as e:
                rec.emit("ObserverError", what="neighbors", err=repr(e), tb=traceback.format_exc()[-600:])
            try:
                rec.last_neighbors_X = np.array(r[0], dtype=float, copy=True)
            except Exception:
                rec.last_neighbors_X = None
            return r
        return w
    rec._patch(GT, "get_grid_search_neighbors", mk_neigh)

    # ---- local_gp_fitting -------------------------------------------------
    def mk_local(orig):
        def w(gp, current_point, function_logger, options, optim_state, iteration_history, refit_flag):
            rec.gp_ctx.append("local")
            rec.last_neighbors_X = None
            try:
                r = orig(gp, current_point, function_logger, options, optim_state, iteration_history, refit_flag)
            finally:
                rec.gp_ctx.pop()
            try:
                g2 = r[0]
                s = _train_summary(rec, g2, function_logger, current_point, None,
                                   "local:" + rec.site(), specified())
                s["refit"] = bool(refit_flag)
                s["exit_flag"] = float(r[1])
                # the surrogate returned is conditioned on exactly the neighbour set selected in this call (fit retries
                # may shrink their WORKING copy of the data, never the surrogate's own training set)
                nb = getattr(rec, "last_neighbors_X", None)
                s["train_is_nbr"] = bool(nb is None or (np.asarray(g2.X).shape == nb.shape
                                                         and np.array_equal(np.asarray(g2.X, dtype=float), nb)))
                # which point was the neighbourhood centred on?  (C15: the current incumbent; the noisy search
                # step fits a tentative GP around the point it has just evaluated)
                cp = np.asarray(current_point, dtype=float).ravel()
                b = rec.bads
                if b is not None and np.array_equal(cp, np.asarray(b.u, dtype=float).ravel()):
                    s["centre"] = "inc"
                elif rec.last_eval_u is not None and np.array_equal(cp, rec.last_eval_u):
                    s["centre"] = "lasteval"
                else:
                    s["centre"] = "other"
                rec.emit("GPTrainSet", **s)
            except Exception as e:
                rec.emit("ObserverError", what="local_fit", err=repr(e), tb=traceback.format_exc()[-600:])
            return r
        return w
    rec._patch(BB, "local_gp_fitting", mk_local)

    # ---- add_and_update_gp -----------------------------------------------
    def mk_add(orig):
        def w(function_logger, gp, x_new, y_new, sd_new=None, options=None):
            n0 = int(np.atleast_2d(gp.X).shape[0])
            r = orig(function_logger, gp, x_new, y_new, sd_new, options)
            try:
                g2 = r
                X = np.atleast_2d(g2.X)
                y = np.asarray(g2.y).ravel()
                fl = function_logger
                grew = int(X.shape[0]) == n0 + 1
                last_is_new = bool(grew and np.array_equal(X[-1], np.asarray(x_new, dtype=float).ravel()))
                # the appended pair must be the record of the just evaluated point
                rows = _match_rows(X[-1:], y[-1:], fl)
                last_eval = None
                for ev in reversed(rec.events):
                    if ev["ev"] == "Eval":
                        last_eval = ev
                        break
                is_newest = bool(last_eval is not None and np.array_equal(last_eval["u"], X[-1]))
                s2_ok = True
                if specified():
                    s2 = None if g2.s2 is None else np.asarray(g2.s2, dtype=float).ravel()
                    if s2 is None or s2.size != y.size:
                        s2_ok = False
                    elif rows[0] >= 0:
                        want = float(fl.S[rows[0]].item()) ** 2
                        s2_ok = bool(np.isclose(s2[-1], want, rtol=1e-9, atol=0.0))
                n_same = 0
                if last_eval is not None:
                    for ev in rec.events:
                        if ev["ev"] == "Eval" and ev["rec"] and ev["outcome"] == "ok" and np.array_equal(ev["u"], last_eval["u"]):
                            n_same += 1
                rec.emit("GPAdd", site=rec.site(), grew=grew, last_is_new=last_is_new, merged=bool(specified() and n_same >= 2),
                         logged=bool(rows[0] >= 0), valmis=bool(rows[0] <= -2),
                         is_newest=is_newest, s2_ok=s2_ok, ntrain=int(X.shape[0]))
            except Exception as e:
                rec.emit("ObserverError", what="gp_add", err=repr(e), tb=traceback.format_exc()[-600:])
            return r
        return w
    rec._patch(BB, "add_and_update_gp", mk_add)

    # ---- acquisition function ----------------------------------------------
    def mk_acq(orig, where):
        def w(xi, func_count, gp, sqrt_beta=None):
            rec.acq_predicts = []
            try:
                r = orig(xi, func_count, gp, sqrt_beta)
            finally:
                preds = rec.acq_predicts
                rec.acq_predicts = None
            try:
                z = np.asarray(r[0], dtype=float).ravel()
                b = rec.bads
                fc_true = int(b.function_logger.func_count) if b is not None else int(func_count)
                nvars = int(np.atleast_2d(xi).shape[1])
                t = fc_true + 1
                sb = np.sqrt(0.2 * 2 * np.log(nvars * t ** 2 * np.pi ** 2 / (6 * 0.1)))
                beta_known = sqrt_beta is None
                if callable(sqrt_beta):
                    # a user-supplied annealing schedule: documented call order schedule(t, n_vars)
                    try:
                        sb = float(sqrt_beta(t, nvars))
                        beta_known = True
                    except Exception:
                        beta_known = False
                ok = True
                if beta_known and len(preds) >= 1 and z.size:
                    mu = preds[-1][0].ravel()
                    sd = np.sqrt(preds[-1][1].ravel())
                    want = mu - sb * sd
                    ok = bool(want.shape == z.shape and np.allclose(z, want, rtol=1e-9, atol=1e-12, equal_nan=True))
                elif beta_known and z.size:
                    ok = False
                site = "es" if where == "es" else rec.site()
                ev = rec.emit("Acq", site=site, n=int(z.size), fc_arg=int(func_count), fc_true=fc_true,
                              lcb_ok=ok, default_beta=bool(beta_known),
                              zmin=float(np.min(z)) if z.size and np.all(np.isfinite(z)) else None,
                              argmin=int(np.argmin(z)) if z.size else -1)
                if rec.es_ctx is not None and where == "es":
                    nrow = int(np.atleast_2d(xi).shape[0]) if np.size(xi) else 0
                    # an empty candidate array still yields one (meaningless) value
                    rec.es_ctx["cands"].append((_c(xi).reshape(nrow, -1) if nrow else np.zeros((0, nvars)), z[:nrow].copy()))
                elif where == "bads":
                    ev["xi"] = _c(xi)
                    ev["z"] = z.copy()
            except Exception as e:
                rec.emit("ObserverError", what="acq", err=repr(e), tb=traceback.format_exc()[-600:])
            return r
        return w
    rec._patch(BB, "acq_fcn_lcb", lambda o: mk_acq(o, "bads"))
    rec._patch(ES, "acq_fcn_lcb", lambda o: mk_acq(o, "es"))

    # ---- evolution strategy -------------------------------------------------
    def mk_es(orig):
        def w(es, u, lb, ub, func_logger, gp, optim_state, sum_rule=True, non_box_cons=None):
            rec.es_ctx = {"cands": []}
            outcome = "ok"
            r = None
            # the mesh-rounded box, recomputed from the hard bounds and the CURRENT search mesh exponent (not read from
            # optim_state['lb_search'/'ub_search'], which the code maintains itself and could leave stale)
            try:
                b_ = rec.bads
                sms = float(b_.options["poll_mesh_multiplier"]) ** int(optim_state["search_size_integer"])
                lb0 = _c(optim_state["lb"]).ravel()
                ub0 = _c(optim_state["ub"]).ravel()
                with np.errstate(invalid="ignore"):
                    lbs = sms * np.round(lb0 / sms)
                    lbs = np.where(lbs < lb0, lbs + sms, lbs)
                    ubs = sms * np.round(ub0 / sms)
                    ubs = np.where(ubs > ub0, ubs - sms, ubs)
                lbs = np.where(np.isfinite(lb0), lbs, lb0)
                ubs = np.where(np.isfinite(ub0), ubs, ub0)
            except Exception:
                lbs = _c(optim_state["lb_search"]).ravel()
                ubs = _c(optim_state["ub_search"]).ravel()
            try:
                r = orig(es, u, lb, ub, func_logger, gp, optim_state, sum_rule, non_box_cons)
                return r
            except BaseException as e:
                outcome = type(e).__name__
                raise
            finally:
                ctx = rec.es_ctx
                rec.es_ctx = None
                try:
                    allz = np.concatenate([c[1] for c in ctx["cands"]]) if ctx["cands"] else np.zeros(0)
                    allu = np.concatenate([np.atleast_2d(c[0]) for c in ctx["cands"] if c[0].size]) if any(c[0].size for c in ctx["cands"]) else np.zeros((0, lbs.size))
                    n_out = int(np.sum(np.any(allu < lbs, axis=1) | np.any(allu > ubs, axis=1))) if allu.shape[0] else 0
                    kw = dict(outcome=outcome, n_generated=int(allz.size), n_outside=n_out,
                              kind=type(es).__name__, n_rounds=len(ctx["cands"]),
                              round_sizes=[int(c[1].size) for c in ctx["cands"]])
                    if r is not None and np.asarray(r[1]).size == 0:
                        # empty search set returned: legitimate only when no
                        # candidate survived the filters
                        kw["ret_is_min"] = bool(allz.size == 0)
                        kw["ret_in_generated"] = bool(allz.size == 0)
                    elif r is not None and allz.size:
                        rz = float(np.asarray(r[1]).ravel()[0])
                        ru = np.asarray(r[0], dtype=float).ravel()
                        kw["ret_z"] = rz
                        kw["min_z"] = float(np.min(allz))
                        hit = bool(np.any(np.all(allu == ru, axis=1) & (allz == rz)))
                        kw["ret_in_generated"] = hit
                        kw["ret_is_min"] = bool(rz <= np.min(allz))
                        if not np.all(np.isfinite(allz)):
                            # non-finite acquisition values (degenerate GP): no order to check
                            kw["ret_is_min"] = True
                            kw["ret_in_generated"] = True
                            kw["nonfinite_acq"] = True
                    rec.emit("ESReturn", **kw)
                except Exception as e:
                    rec.emit("ObserverError", what="es", err=repr(e), tb=traceback.format_exc()[-600:])
        return w
    rec._patch(ES.ESSearch, "__call__", mk_es)

    # ---- hedge ---------------------------------------------------------------
    def mk_hedge(orig):
        def w(h, u, lb, ub, func_logger, gp, optim_state):
            outcome = "ok"
            try:
                return orig(h, u, lb, ub, func_logger, gp, optim_state)
            except BaseException as e:
                outcome = type(e).__name__
                raise
            finally:
                try:
                    p = np.asarray(h.prob, dtype=float).ravel()
                    ch = int(np.asarray(h.chosen_hedge).ravel()[0])
                    rec.emit("HedgeCall", outcome=outcome, n_funs=int(h.n_funs),
                             prob=p.copy(), gamma=float(h.gamma),
                             prob_sum_ok=bool(abs(float(np.sum(p)) - 1.0) < 1e-9),
                             prob_min_ok=bool(np.all(p >= h.gamma - 1e-12)),
                             prob_finite=bool(np.all(np.isfinite(p))),
                             chosen=ch, g=_c(h.g))
                except Exception as e:
                    rec.emit("ObserverError", what="hedge", err=repr(e), tb=traceback.format_exc()[-600:])
        return w
    rec._patch(SH.ESSearchHedge, "__call__", mk_hedge)
