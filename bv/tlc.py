"""Thin runner around TLC (tla2tools.jar) with output parsing.

All TLC invocations of the framework go through `run_tlc`.  The working
directory of a run is a private scratch directory under /verif/.cache/tlc so
that nothing is needed from /tmp and concurrent checks do not collide.
"""
import os
import re
import shutil
import subprocess
import time
import uuid

VERIF = os.path.dirname(os.path.dirname(os.path.abspath(__file__)))
SPECS = os.path.join(VERIF, "specs")
CACHE = os.path.join(VERIF, ".cache")
JAR = "/opt/veriftools/tla/tla2tools.jar"


class TLCResult:
    def __init__(self):
        self.ok = False            # TLC finished without any error
        self.exit_code = None
        self.states_generated = 0
        self.distinct_states = 0
        self.diameter = 0
        self.violated = []         # names of violated invariants / properties
        self.errors = []           # other error lines
        self.timeout = False
        self.output = ""
        self.wall_s = 0.0
        self.coverage = {}         # action name -> (count, distinct) when -coverage
        self.workdir = None
        self.printed = []          # lines printed by PrintT

    def summary(self):
        return {
            "ok": self.ok,
            "states": self.states_generated,
            "distinct": self.distinct_states,
            "diameter": self.diameter,
            "violated": self.violated,
            "errors": self.errors[:5],
            "timeout": self.timeout,
            "wall_s": round(self.wall_s, 2),
        }


def _classpath():
    cp = [JAR]
    cm = "/opt/veriftools/tla/CommunityModules-deps.jar"
    if os.path.exists(cm):
        cp.append(cm)
    for f in os.listdir("/opt/veriftools/tla"):
        if f.endswith(".jar") and os.path.join("/opt/veriftools/tla", f) not in cp:
            cp.append(os.path.join("/opt/veriftools/tla", f))
    return ":".join(cp)


def run_tlc(spec, cfg=None, workers=None, timeout=600, extra_modules=(),
            env=None, simulate=None, depth=None, seed=None, coverage=False,
            dump=None, deadlock=True, dfs_queue=False, keep=False,
            extra_files=(), jvm_mem="4g", aril=None):
    """Run TLC on specs/<spec>.tla with config <cfg> (file name in specs/ or
    literal text when it contains a newline).  Returns TLCResult."""
    res = TLCResult()
    t0 = time.time()
    work = os.path.join(CACHE, "tlc", f"{spec}-{uuid.uuid4().hex[:10]}")
    os.makedirs(work, exist_ok=True)
    res.workdir = work
    # copy all spec modules (small) so EXTENDS resolve
    for f in os.listdir(SPECS):
        if f.endswith(".tla"):
            shutil.copy(os.path.join(SPECS, f), work)
    for f in extra_files:
        shutil.copy(f, work)
    cfgname = spec + ".cfg"
    if cfg is None:
        shutil.copy(os.path.join(SPECS, cfgname), work)
    elif "\n" in cfg:
        with open(os.path.join(work, cfgname), "w") as fh:
            fh.write(cfg)
    else:
        shutil.copy(os.path.join(SPECS, cfg), os.path.join(work, cfgname))
    if workers is None:
        workers = os.cpu_count() or 4
    cmd = ["java", f"-Xmx{jvm_mem}", "-XX:+UseParallelGC"]
    if dfs_queue:
        cmd.append("-Dtlc2.tool.queue.IStateQueue=StateDeque")
    cmd += ["-cp", _classpath(), "tlc2.TLC", "-workers", str(workers),
            "-metadir", os.path.join(work, "states"), "-noGenerateSpecTE",
            "-config", cfgname]
    if not deadlock:
        cmd.append("-deadlock")
    if coverage:
        cmd += ["-coverage", "1"]
    if simulate is not None:
        cmd += ["-simulate", simulate]
        for part in simulate.split(","):
            if part.startswith("file="):
                os.makedirs(os.path.join(work, os.path.dirname(part[5:])), exist_ok=True)
    if depth is not None:
        cmd += ["-depth", str(depth)]
    if seed is not None:
        cmd += ["-seed", str(seed)]
    if aril is not None:
        cmd += ["-aril", str(aril)]
    if dump is not None:
        cmd += ["-dump", dump]
    cmd.append(spec + ".tla")
    e = dict(os.environ)
    if env:
        e.update(env)
    try:
        p = subprocess.run(cmd, cwd=work, env=e, capture_output=True,
                           text=True, timeout=timeout)
        res.exit_code = p.returncode
        res.output = p.stdout + p.stderr
    except subprocess.TimeoutExpired as ex:
        res.timeout = True
        out = ex.stdout or b""
        res.output = out.decode(errors="replace") if isinstance(out, bytes) else out
        subprocess.run(["pkill", "-f", work], capture_output=True)
    res.wall_s = time.time() - t0
    _parse(res)
    if not keep and res.ok and dump is None and simulate is None:
        shutil.rmtree(work, ignore_errors=True)
    return res


_re_states = re.compile(r"(\d+) states generated, (\d+) distinct states found")
_re_inv = re.compile(r"Invariant (\S+) is violated")
_re_prop = re.compile(r"(?:Temporal properties were violated|Action property (\S+) is violated|Property (\S+) is violated)")
_re_diam = re.compile(r"The depth of the complete state graph search is (\d+)")
_re_cov = re.compile(r"^<(\w+) line \d+, col \d+ to line \d+, col \d+ of module (\w+)>: (\d+):(\d+)")


def _parse(res):
    out = res.output
    for m in _re_states.finditer(out):
        res.states_generated = int(m.group(1))
        res.distinct_states = int(m.group(2))
    m = _re_diam.search(out)
    if m:
        res.diameter = int(m.group(1))
    for m in _re_inv.finditer(out):
        res.violated.append(m.group(1))
    for m in _re_prop.finditer(out):
        res.violated.append(m.group(1) or m.group(2) or "temporal")
    for line in out.splitlines():
        if line.startswith("Error:") or "Exception" in line and "at " not in line[:4]:
            if "Invariant" in line and "violated" in line:
                continue
            res.errors.append(line.strip())
        m = _re_cov.match(line)
        if m:
            res.coverage[m.group(1)] = (int(m.group(3)), int(m.group(4)))
        if "Deadlock reached" in line:
            res.violated.append("Deadlock")
        if "Postcondition" in line or "postcondition" in line:
            if "violated" in line or "false" in line.lower():
                res.violated.append("POSTCONDITION")
    finished = ("Model checking completed. No error has been found." in out
                or "Finished in" in out and not res.violated and not res.errors)
    res.ok = (not res.timeout and not res.violated and not res.errors
              and finished)


def sany(spec):
    p = subprocess.run(["java", "-cp", _classpath(), "tla2sany.SANY", spec + ".tla"],
                       cwd=SPECS, capture_output=True, text=True)
    return p.returncode == 0 and "Semantic errors" not in p.stdout, p.stdout
