"""C20 component check: specs/Options.tla schedules (all orders of constructing /
running three instances with different D and override sets, enumerated by TLC)
replayed in one real process; option-name enumeration from the two ini files."""
import configparser
import multiprocessing as mp
import os
import shutil

import numpy as np

from .common import MachineryError, REPO
from .tlaval import parse_dump
from .tlc import run_tlc

# binding of the abstract option names of Options.tla to real options
BIND = {"bPlain": "noise_final_samples", "bDim": "max_iter", "aPlain": "tol_fun",
        "aDim": "tol_stall_iters", "aDep": "tol_noise"}
USER_VALUES = {"noise_final_samples": 3, "max_iter": 7, "tol_fun": 1e-2, "tol_stall_iters": 9,
               "tol_noise": 1e-7}
INST_D = {1: 2, 2: 3, 3: 1, 4: 2}
INST_USER = {1: {"aPlain", "bDim"}, 2: set(), 3: {"aDim", "aDep", "bPlain"}, 4: set()}
INST_NOISY = {1: True, 2: False, 3: True, 4: False}
# options that optimize() legitimately rewrites for its own instance
RUN_MUTABLE = {"max_fun_evals", "noise_final_samples", "tol_stall_iters", "n_train_max", "n_train_min",
               "mesh_overflow_warning", "min_failed_poll_steps", "mesh_noise_multiplier", "noise_size",
               "fun_eval_start", "stobads", "specify_target_noise", "uncertainty_handling"}


def ini_paths():
    base = os.path.join(REPO, "pybads", "bads", "option_configs")
    return [os.path.join(base, "basic_bads_options.ini"), os.path.join(base, "advanced_bads_options.ini")]


def read_ini(path):
    conf = configparser.ConfigParser(comment_prefixes="", allow_no_value=True)
    conf.optionxform = str
    conf.read(path)
    out = []
    for sec in conf.sections():
        for k, v in conf.items(sec):
            if "#" not in k:
                out.append((k, v))
    return out


class _Proxy:
    def __init__(self, d):
        self.d = d

    def get(self, k, default=None):
        return self.d.get(k, default)

    def __getitem__(self, k):
        return self.d[k]


def independent_defaults(D, user):
    """evaluate the ini expressions for dimension D without the Options class"""
    cur = {}
    for pi, path in enumerate(ini_paths()):
        for k, expr in read_ini(path):
            if k in user:
                cur.setdefault(k, user[k])
                if pi == 0:
                    continue
                continue
            cur[k] = eval(expr, {"np": np, "D": D, "self": _Proxy(cur)})
        if pi == 0:
            for k, v in user.items():
                cur[k] = v
    return cur


def snap(v):
    if isinstance(v, np.ndarray):
        return ("arr", str(v.dtype), v.shape, v.tobytes())
    if callable(v):
        return ("callable", id(v))
    if isinstance(v, (set, frozenset)):
        return ("set", tuple(sorted(map(str, v))))
    if isinstance(v, dict):
        return ("dict", tuple(sorted((str(k), snap(x)) for k, x in v.items())))
    if isinstance(v, (list, tuple)):
        return (type(v).__name__, tuple(snap(x) for x in v))
    if isinstance(v, float) and v != v:
        return ("nan",)
    return (type(v).__name__, repr(v))


def same(a, b):
    if callable(a) and callable(b):
        return True
    try:
        if isinstance(a, np.ndarray) or isinstance(b, np.ndarray):
            return np.array_equal(np.asarray(a), np.asarray(b)) and type(a) == type(b)
    except Exception:
        return False
    if isinstance(a, float) and isinstance(b, float) and a != a and b != b:
        return True
    if type(a) != type(b) and not (isinstance(a, (int, float, np.number)) and isinstance(b, (int, float, np.number))):
        return False
    if isinstance(a, (list, tuple)):
        return len(a) == len(b) and all(same(x, y) for x, y in zip(a, b))
    try:
        return bool(a == b)
    except Exception:
        return False


def _geom(i, D):
    """caller-owned arrays of instance i: geometries that drive the constructor through each of
    its bound-adjusting branches (x0 on a hard bound, plausible = hard, plausible within 0.1% of
    hard, x0 outside the plausible box, 1-D array spellings, shared array objects)"""
    if i == 1:      # interior box
        return (np.full((1, D), 0.5), np.full((1, D), -4.0), np.full((1, D), 4.0),
                np.full((1, D), -2.0), np.full((1, D), 2.0))
    if i == 2:      # plausible bounds equal to the hard bounds, x0 on the lower hard bound
        return (np.full((1, D), -4.0), np.full((1, D), -4.0), np.full((1, D), 4.0),
                np.full((1, D), -4.0), np.full((1, D), 4.0))
    if i == 3:      # flat arrays, positive box (log rule), plausible bound within 0.1% of hard, x0 on ub
        return (np.full(D, 1000.0), np.full(D, 1.0), np.full(D, 1000.0),
                np.full(D, 1.0005), np.full(D, 999.9))
    # x0 outside the plausible box (box is widened), hard bounds passed as the same object as plausible
    lb, ub = np.full((1, D), -5.0), np.full((1, D), 5.0)
    x0 = np.full((1, D), 3.0)
    x0[0, 0] = -5.0
    return (x0, lb, ub, np.full((1, D), -1.0), np.full((1, D), 1.0))


def _replay_schedule(hist):
    """returns list of (clause, site, where, detail)"""
    import logging
    logging.disable(logging.CRITICAL)
    from pybads.bads.bads import BADS
    viol = []
    insts = {}
    caller = {}
    snaps = {}

    def add(clause, site, detail):
        viol.append((clause, site, f"schedule={hist}", detail))
    for step, (op, i) in enumerate(hist):
        D = INST_D[i]
        if op == "C":
            user = {BIND[n]: USER_VALUES[BIND[n]] for n in INST_USER[i]}
            extra = {"display": "off", "random_seed": 10 + i, "max_fun_evals": 45 if INST_NOISY[i] else 12}
            if INST_NOISY[i]:
                extra["uncertainty_handling"] = True
            uopts = dict(user)
            uopts.update(extra)
            x0, lb, ub, plb, pub = _geom(i, D)
            before = {"opts": {k: snap(v) for k, v in uopts.items()}, "keys": sorted(uopts),
                      "arrs": [a.tobytes() for a in (x0, lb, ub, plb, pub)]}
            if INST_NOISY[i]:
                fun = lambda x: float(np.sum(np.asarray(x) ** 2)) + 0.3 * float(np.random.normal())
            else:
                fun = lambda x: float(np.sum(np.asarray(x) ** 2))
            try:
                b = BADS(fun, x0, lb, ub, plb, pub, options=uopts)
            except Exception as e:
                add("C20.construct_raises", f"Construct({i})", {"error": repr(e)[:160]})
                return viol
            insts[i] = b
            caller[i] = (uopts, (x0, lb, ub, plb, pub), before)
            o = b.options
            for k, v in uopts.items():
                if k not in o or not same(o[k], v):
                    add("C20.user_wins", f"Construct({i})", {"option": k, "supplied": repr(v), "got": repr(o.get(k))})
            ref = independent_defaults(D, uopts)
            if "tol_fun" in user and "tol_noise" not in user:
                if not same(o["tol_noise"], np.spacing(1.0) * user["tol_fun"]):
                    add("C20.dependent_sees_user", f"Construct({i})", {"tol_noise": repr(o["tol_noise"])})
                if not same(o["hedge_beta"], 1e-3 / user["tol_fun"]):
                    add("C20.dependent_sees_user", f"Construct({i})", {"hedge_beta": repr(o["hedge_beta"])})
            for k, v in ref.items():
                if k in uopts:
                    continue
                if k not in o:
                    add("C20.defaults_for_own_dimension", f"Construct({i})", {"option": k, "missing": True})
                elif not same(o[k], v):
                    # constructor normalisations of None flags
                    if k in ("stobads", "specify_target_noise") and v is None and o[k] is False:
                        continue
                    if k == "uncertainty_handling":
                        continue
                    add("C20.defaults_for_own_dimension", f"Construct({i})",
                        {"option": k, "D": D, "want": repr(v)[:80], "got": repr(o[k])[:80]})
            extra_keys = set(dict.keys(o)) - set(ref) - {"useroptions"}
            if extra_keys:
                add("C20.unknown_option_present", f"Construct({i})", {"keys": sorted(extra_keys)})
        else:
            b = insts[i]
            try:
                b.optimize()
            except Exception as e:
                add("C20.run_raises", f"Run({i})", {"error": repr(e)[:160]})
                return viol
            uopts, arrs, before = caller[i]
            o = b.options
            for k, v in uopts.items():
                if k in RUN_MUTABLE:
                    continue
                if not same(o[k], v):
                    add("C20.user_wins", f"Run({i})", {"option": k, "supplied": repr(v), "got": repr(o.get(k))})
        # caller-owned objects untouched (for every instance built so far)
        for j, (uopts, arrs, before) in caller.items():
            now = {k: snap(v) for k, v in uopts.items()}
            if sorted(uopts) != before["keys"] or now != before["opts"]:
                add("C20.caller_dict_untouched", f"{op}({i})", {"instance": j})
            if [a.tobytes() for a in arrs] != before["arrs"]:
                add("C20.caller_arrays_untouched", f"{op}({i})", {"instance": j})
        # no leak: options of every OTHER instance are unchanged by this step
        for j, bj in insts.items():
            cur = {k: snap(v) for k, v in dict.items(bj.options) if k != "useroptions"}
            cur["useroptions"] = snap(bj.options["useroptions"])
            if j != i and j in snaps and cur != snaps[j]:
                diff = [k for k in cur if cur[k] != snaps[j].get(k)]
                add("C20.no_leak_between_instances", f"{op}({i})", {"changed_instance": j, "options": diff[:8]})
            snaps[j] = cur
    return viol


_REF = {}


def _kinds(dv):
    if isinstance(dv, (bool, np.bool_)):
        return ["flip", "falsy"]
    if isinstance(dv, (int, np.integer)):
        return ["changed", "falsy"]
    if isinstance(dv, (float, np.floating)):
        return ["changed", "falsy"]
    return ["same"]


def _sentinel(name, kind, D):
    if D not in _REF:
        _REF[D] = independent_defaults(D, {})
    dv = _REF[D][name]
    if kind == "same":
        return dv
    if isinstance(dv, (bool, np.bool_)):
        return (not bool(dv)) if kind == "flip" else False
    if isinstance(dv, (int, np.integer)):
        return int(dv) + 1 if kind == "changed" else 0
    if isinstance(dv, (float, np.floating)):
        if kind == "falsy":
            return 0.0
        return float(dv) * 2 + 1 if np.isfinite(dv) else 123.0
    return dv


def _name_job(job):
    """one option-name sentinel case"""
    import logging
    logging.disable(logging.CRITICAL)
    from pybads.bads.bads import BADS
    name, kind, D = job
    value = _sentinel(name, kind, D)
    x0 = np.full((1, D), 0.5)
    try:
        b = BADS(lambda x: 0.0, x0, np.full((1, D), -4.0), np.full((1, D), 4.0), np.full((1, D), -2.0),
                 np.full((1, D), 2.0), options={"display": "off", name: value} if name != "display" else {name: value})
    except ValueError as e:
        return job, ("ValueError", str(e)[:80])
    except Exception as e:
        return job, ("other:" + type(e).__name__, str(e)[:80])
    got = b.options.get(name)
    return job, ("ok", same(got, value), repr(got)[:60], repr(value)[:60])


def run(verdict, tier):
    # ---- schedules from TLC -------------------------------------------------------
    r = run_tlc("OptionsMC", timeout=600, dump="out", keep=True)
    if not r.ok:
        if r.violated:
            verdict.violation("C20.design_model:" + ",".join(r.violated), site="Options.tla", where="MC")
        else:
            raise MachineryError("Options TLC failed: %s\n%s" % (r.summary(), r.output[-1500:]))
    states = parse_dump(os.path.join(r.workdir, "out.dump"))
    shutil.rmtree(r.workdir, ignore_errors=True)
    hists = sorted({tuple((op[0], op[1]) for op in st["hist"]) for st in states}, key=lambda h: (len(h), h))
    maximal = [h for h in hists if not any(len(g) == len(h) + 1 and g[:len(h)] == h for g in hists)]
    if tier == "quick":
        # construction orders matter most: every order of the 4 constructions (24), each followed by
        # runs in a rotating order, plus a stratified sample of the interleaved schedules
        conly = [h for h in hists if len(h) == 4 and all(op == "C" for op, _ in h)]
        use = []
        for ci, c in enumerate(conly):
            ext = [h for h in maximal if h[:4] == c]
            use.append(ext[ci % len(ext)] if ext else c)
        rest = [h for h in maximal if h not in use]
        use += rest[:: max(1, len(rest) // 24)]
    else:
        use = maximal
    ctx = mp.get_context("fork")
    n = os.cpu_count() or 4
    nviol = 0
    with ctx.Pool(n, maxtasksperchild=6) as pool:
        for vs in pool.imap_unordered(_replay_schedule, use):
            for (clause, site, where, detail) in vs:
                verdict.violation(clause, site=site, where=where, detail=detail)
                nviol += 1
    # ---- option-name enumeration --------------------------------------------------
    names = []
    for path in ini_paths():
        names += read_ini(path)
    jobs = []
    skipped = []
    for D in (1, 2, 3) if tier == "thorough" else (2,):
        ref = independent_defaults(D, {})
        for name, _ in names:
            for kind in _kinds(ref[name]):
                jobs.append((name, kind, D))
    res = {"ok": 0, "ValueError": 0, "other": 0}
    with ctx.Pool(n) as pool:
        for job, out in pool.imap_unordered(_name_job, jobs, chunksize=8):
            name, kind, D = job
            if out[0] == "ok":
                res["ok"] += 1
                if not out[1]:
                    verdict.violation("C20.user_wins", site=f"name_enumeration:{kind}",
                                      where=f"option={name} D={D}", detail={"supplied": out[3], "got": out[2]})
            elif out[0] == "ValueError":
                res["ValueError"] += 1
                skipped.append((name, kind, out[1][:50]))
            else:
                res["other"] += 1
                skipped.append((name, kind, out[0] + " " + out[1][:40]))
    # unknown names must be rejected
    from pybads.bads.bads import BADS
    for bad in ("not_an_option", "max_fun_eval", "MaxIter", "tolmesh"):
        try:
            BADS(lambda x: 0.0, np.zeros((1, 2)), np.full((1, 2), -4.0), np.full((1, 2), 4.0),
                 np.full((1, 2), -2.0), np.full((1, 2), 2.0), options={"display": "off", bad: 1})
            verdict.violation("C20.unknown_rejected", site="BADS.__init__", where=f"option={bad}", detail={})
        except ValueError:
            pass
        except Exception as e:
            verdict.violation("C20.unknown_rejected", site="BADS.__init__", where=f"option={bad}",
                              detail={"error": repr(e)[:100]})
    # one options dict used for two constructions: the first must not change what the second sees, whether the
    # constructor accepts the dict or rejects it (mode options left unset / given in the "alternative" spellings)
    reuse = [{"specify_target_noise": True}, {"uncertainty_handling": True}, {"uncertainty_handling": False},
             {"specify_target_noise": True, "uncertainty_handling": True}, {"stobads": True}, {"noise_size": 0.5},
             {"specify_target_noise": False}, {"max_fun_evals": 30, "fun_eval_start": 4}, {"tol_fun": 1e-2}]
    n_reuse = 0
    for user in reuse:
        d = dict(user)
        d["display"] = "off"
        before = {k: snap(v) for k, v in d.items()}
        outs = []
        for rep_ in range(2):
            try:
                bb = BADS(lambda x: 0.0, np.zeros((1, 2)), np.full((1, 2), -4.0), np.full((1, 2), 4.0),
                          np.full((1, 2), -2.0), np.full((1, 2), 2.0), options=d)
                outs.append(("ok", {k: snap(bb.options[k]) for k in ("uncertainty_handling", "specify_target_noise", "stobads", "noise_size", "tol_fun")}))
            except ValueError as e:
                outs.append(("ValueError", str(e)[:60]))
            except Exception as e:
                outs.append(("other:" + type(e).__name__, str(e)[:60]))
        n_reuse += 1
        now = {k: snap(v) for k, v in d.items()}
        if sorted(d) != sorted(before) or now != before:
            verdict.violation("C20.caller_dict_untouched", site="BADS.__init__:dict_reuse", where=f"options={user}",
                              detail={"before": sorted(before), "after": sorted(d)})
        if outs[0] != outs[1]:
            verdict.violation("C20.no_leak_between_instances", site="BADS.__init__:dict_reuse", where=f"options={user}",
                              detail={"first": repr(outs[0])[:120], "second": repr(outs[1])[:120]})
    verdict.coverage.update({
        "options_dict_reuse_cases": n_reuse,
        "options_states": r.distinct_states, "options_schedules_in_model": len(hists),
        "options_schedules_replayed": len(use), "options_names_in_ini_files": len(names),
        "options_name_cases": len(jobs), "options_name_outcomes": res,
        "options_sentinels_rejected_by_constructor": skipped[:12],
        "options_samples": [list(map(list, use[0])), list(map(list, use[-1]))] if use else [],
    })
    return r.distinct_states, len(use) + len(jobs)
