"""Direct refinement check: each recorded run must be a behaviour of the DESIGN
specification specs/BadsRun.tla (acceptor: specs/BadsRunRefine.tla, which only
re-uses BadsRun's own actions).  One TLC run per recorded run, with the run's
options as literal constants in a generated cfg; runs in parallel.

A rejection names the first event no action of the design can match together
with the design state(s) reached; it is reported under the clause
`<prop>.design_refinement` by the checks that use it."""
import json
import os
import re
import shutil
from concurrent.futures import ThreadPoolExecutor

from .common import CACHE
from .tlc import run_tlc

KEEP = {"Eval", "InitDone", "Reserve", "SearchBegin", "SearchEnd", "PollBegin", "PollEnd",
        "LoopEnd", "Result", "Crash"}
DROP_FIELDS = {"lbI", "ubI", "xR", "uR", "dirs", "d", "yvR", "ysR"}


def applicable(sc, events):
    """(ok, reason).  Runs outside the design model's stated scope are skipped, with the reason kept
    in the evidence."""
    cons = next((e for e in events if e["e"] == "Construct"), None)
    if cons is None or cons.get("outcome") != "ok":
        return False, "constructor rejected the problem (no run)"
    cfg = cons["cfg"]
    if cfg["budget"] < 2:
        return False, "budget < 2 (ASSUME of BadsRun)"
    if cfg["k0"] != 0:
        return False, "non-default initial mesh exponent"
    if (sc.get("options") or {}).get("_output_fcn"):
        return False, "user output function (not modelled in the design)"
    if (sc.get("options") or {}).get("stobads") and (sc.get("options") or {}).get("sloppy_improvement", True) is False:
        return False, "stochastic MADS success rule combined with sloppy_improvement = False (not modelled in the design)"
    if any(e["e"] == "Crash" and not e.get("injected") for e in events):
        return False, "run crashed (reported by C09)"
    if (sc.get("faults") or {}).get("fit"):
        pass
    idn = next((e for e in events if e["e"] == "InitDone"), None)
    if idn is not None and idn["fc"] > cfg["budget"]:
        return False, "budget below the initial design (outside the design's stated precondition fc + n <= Budget)"
    if not any(e["e"] == "Reserve" for e in events) and not any(e["e"] == "Crash" for e in events):
        return False, "run ended before the main loop"
    return True, ""


def constants(sc, events):
    cons = next(e for e in events if e["e"] == "Construct")
    cfg = cons["cfg"]
    ys = [e["yR"] for e in events if e["e"] == "Eval" and e.get("outcome") == "ok"]
    ys += [e["incyR"] for e in events if e["e"] in ("InitDone", "PollEnd", "LoopEnd", "SearchEnd") and "incyR" in e]
    ninit = sum(1 for e in events if e["e"] == "Eval" and e.get("kind") == "init")
    mode = (sc.get("noise") or {}).get("mode", "det")

    def b(x):
        return "TRUE" if x else "FALSE"
    big = 2 ** 30
    return {
        "D": sc["D"], "Budget": cfg["budget"], "MaxIter": min(cfg["maxiter"], big), "KTolAbs": -cfg["ktol"],
        "KCap": cfg["kcap"], "NTry": cfg["ntry"], "NFinal": cfg["nfinal"], "NInitMax": ninit,
        "Noisy": b(mode in ("declared", "specified")), "AutoDetect": "TRUE",
        "SkipPollAfterSearch": b(cfg["skippoll"]), "CompletePoll": b(cfg["completepoll"]),
        "AccelMesh": b(cfg["accel"]), "AccelSteps": cfg["accelsteps"], "StallIters": cfg["stalliters"],
        "SearchLocked": b(cfg["locked"]), "GridMult": cfg["gmult"], "GridNum": cfg["gnum"],
        "MeshExpand": cfg["expand"], "MeshIncr": cfg["incr"], "Sloppy": b(cfg.get("sloppy", True)),
        "NVals": max([0] + [y for y in ys if isinstance(y, int) and y >= 0]) + 1, "Faults": "TRUE",
    }


GROUPS = ("ChkMesh", "ChkCtr", "ChkVal", "ChkCnt")


def _tlc_once(tpath, c, off=None):
    flags = "".join(f"  {g} = {'FALSE' if g == off else 'TRUE'}\n" for g in GROUPS)
    cfg = "SPECIFICATION RSpec\nCONSTANTS\n" + "".join(f"  {k} = {v}\n" for k, v in c.items()) + flags + \
          "CONSTRAINT Track\nPOSTCONDITION Accepted\nCHECK_DEADLOCK FALSE\n"
    r = run_tlc("BadsRunRefine", cfg=cfg, workers=1, timeout=600, env={"TRACE_FILE": tpath},
                deadlock=False, jvm_mem="1g", keep=False)
    m = re.search(r'"REFINE_MAXL",\s*(\d+),\s*(\d+)', r.output)
    if r.workdir:
        shutil.rmtree(r.workdir, ignore_errors=True)
    if m is None:
        return None, None, r
    return int(m.group(1)), int(m.group(2)), r


def _one(job):
    idx, sc, events = job
    ok, why = applicable(sc, events)
    if not ok:
        return idx, {"status": "skipped", "reason": why}
    evs = []
    orig_idx = []
    for j, e in enumerate(events):
        if e["e"] in KEEP:
            evs.append({k: v for k, v in e.items() if k not in DROP_FIELDS})
            orig_idx.append(j)
    wdir = os.path.join(CACHE, "refine")
    os.makedirs(wdir, exist_ok=True)
    tpath = os.path.join(wdir, f"r{os.getpid()}-{idx}-{id(job) % 100000}.ndjson")
    with open(tpath, "w") as fh:
        for e in evs:
            fh.write(json.dumps(e, separators=(",", ":")) + "\n")
    c = constants(sc, events)
    try:
        maxl, want, r = _tlc_once(tpath, c)
        if maxl is None:
            return idx, {"status": "machinery", "detail": r.output[-1500:], "constants": c}
        if maxl == want:
            return idx, {"status": "accepted", "events": len(evs), "states": r.distinct_states, "constants": c}
        # which group of logged fields does the deviation belong to?
        groups = []
        for g in GROUPS:
            m2, _, _ = _tlc_once(tpath, c, off=g)
            if m2 is not None and m2 > maxl:
                groups.append(g)
        ev = evs[maxl - 1] if 1 <= maxl <= len(evs) else None
        prev = evs[max(0, maxl - 4):maxl - 1]
        return idx, {"status": "rejected", "at": maxl, "of": len(evs), "event": ev, "before": prev, "constants": c,
                     "states": r.distinct_states, "groups": groups,
                     "orig_index": orig_idx[maxl - 1] if 1 <= maxl <= len(evs) else len(events) - 1}
    finally:
        try:
            os.remove(tpath)
        except OSError:
            pass


def refine_runs(scs, events_per_run, procs=None):
    jobs = [(i, scs[i], events_per_run[i]) for i in range(len(scs))]
    out = [None] * len(scs)
    with ThreadPoolExecutor(procs or (os.cpu_count() or 4)) as ex:
        for idx, res in ex.map(_one, jobs):
            out[idx] = res
    return out


def clauses_for(sc, o):
    """property clauses a rejection is attributed to (by the group(s) of logged fields whose unbinding lets the
    design follow the run further; structural deviations go to the controller property C03)"""
    ev = o.get("event") or {}
    noisy = (sc.get("noise") or {}).get("mode", "det") != "det"
    out = []
    for g in o.get("groups") or []:
        if g == "ChkMesh":
            out.append("C13.design_refinement")
        elif g in ("ChkCtr", "ChkCnt"):
            out.append("C03.design_refinement")
        elif g == "ChkVal":
            out.append("C05.design_refinement" if noisy else "C04.design_refinement")
            out.append("C19.design_refinement")
    if not out:
        if ev.get("e") == "Crash" or (ev.get("e") == "Eval" and ev.get("outcome") != "ok"):
            out.append("C10.design_refinement")
        else:
            out.append("C03.design_refinement")
    return sorted(set(out))
