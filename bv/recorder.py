"""Observer for one real pybads run.

Everything is observed from outside the repository (attribute patches that
call the original and return its result unchanged) except the `loop_end`
probe in BADS.optimize, which is the one guarded hook in /repo.

`run_scenario(sc)` returns the list of raw events (python dicts holding numpy
copies); `projection.project(events)` turns them into the integer/boolean
ndjson that the TLA+ trace specification consumes.
"""
import os
import sys
import traceback

import numpy as np

from . import scenarios as S


class InjectedTargetError(RuntimeError):
    pass


class InjectedStopIteration(StopIteration):
    """a target failing with a StopIteration (e.g. next() on an exhausted iterator): iterator protocols such as
    map() / generators swallow it silently if the target is called from inside one"""


class InjectedLinAlgError(np.linalg.LinAlgError):
    """a target failing with numpy's LinAlgError: handlers meant for GP failures must not swallow it"""


class InjectedTypeError(TypeError):
    """a target failing with a TypeError: must not be mistaken for a malformed return value"""


class InjectedTargetError2(Exception):
    """an exception type whose constructor needs two positional arguments
    (like subprocess.CalledProcessError): it cannot be re-created from a message"""

    def __init__(self, code, detail):
        super().__init__(code, detail)
        self.code = code
        self.detail = detail


class RunTimeout(BaseException):
    """raised by the per-run watchdog (runpanel._work): the run did not finish within the wall-clock limit"""


class NonProgress(Exception):
    """Raised by the probe when the model-proven bound on consecutive
    non-progress loop iterations is exceeded (turns a hang into a verdict)."""


def _c(a):
    if a is None:
        return None
    return np.array(a, dtype=float, copy=True)


class Recorder:
    def __init__(self, sc, np_slack=0, max_loop=200000):
        self.sc = sc
        self.events = []
        self.stack = []
        self.undo = []
        self.ncalls = 0
        self.cur_eval = None
        self.np_count = 0
        self.np_slack = np_slack
        self.max_loop = max_loop
        self.last_eval_u = None
        self._seen_x = {}
        self.filtered = {}        # step site -> rows (bytes) returned by the candidate filter in this step
        self.since_filter = {}    # step site -> points evaluated since the filter was last called in this step
        self.bads = None
        self.fit_idx = 0
        self.in_es = 0
        self.es_acq = None
        self.loop_finished = False
        self.evals_since_loop_end = 0
        self.polled_since_loop_end = False
        D = sc["D"]
        self.f0 = S.make_target(sc["target"], D)
        self.noise = sc.get("noise", {"mode": "det"})
        self.sdfun = S.make_noise_sd(self.noise, D) if self.noise.get("mode", "det") != "det" else None
        self.cons0 = S.make_cons(sc.get("cons"), D)
        self.tfaults = {int(k): v for k, v in sc.get("faults", {}).get("target", {}).items()}
        self.ffaults = set(sc.get("faults", {}).get("fit", []))

    # ------------------------------------------------------------------
    def emit(self, ev, **kw):
        kw["ev"] = ev
        kw["seq"] = len(self.events)
        self.events.append(kw)
        return kw

    def site(self):
        return self.stack[-1] if self.stack else ("final" if self.loop_finished else "top")

    # ------------------------------------------------------------------
    # user callables handed to BADS
    # ------------------------------------------------------------------
    def target(self, x):
        self.ncalls += 1
        n = self.ncalls
        xc = _c(x).ravel()
        rec = {"n": n, "x": xc}
        if self.cur_eval is not None:
            self.cur_eval["tcalls"].append(rec)
        else:
            self.emit("StrayCall", n=n, x=xc, site=self.site())
        mode = self.noise.get("mode", "det")
        fk = self.tfaults.get(n)
        if fk == "exception":
            rec["fault"] = fk
            raise InjectedTargetError("injected target failure at call %d" % n)
        if fk == "exception3":
            rec["fault"] = fk
            raise InjectedStopIteration("injected target failure at call %d" % n)
        if fk == "exception4":
            rec["fault"] = fk
            raise InjectedLinAlgError("injected target failure at call %d" % n)
        if fk == "exception5":
            rec["fault"] = fk
            raise InjectedTypeError("injected target failure at call %d" % n)
        if fk == "exception2":
            rec["fault"] = fk
            raise InjectedTargetError2(n, "injected target failure")
        y = self.f0(xc)
        sd = None
        if mode != "det":
            sd = float(self.sdfun(xc))
            y = y + float(self.noise.get("actual", 1.0)) * sd * float(np.random.normal())
            # optional: a repeated observation of a point comes out markedly lower, so that re-observed points tend
            # to become the incumbent (exercises merged records as incumbents / recorded iterates)
            rd = float(self.noise.get("repeat_drop", 0.0))
            if rd:
                key = xc.tobytes()
                cnt = self._seen_x.get(key, 0)
                self._seen_x[key] = cnt + 1
                if cnt and self.site() in ("search", "poll"):
                    y = y - rd * sd
        rec["y"] = y
        rec["sd"] = sd
        if fk is not None:
            rec["fault"] = fk
            bad = _fault_value(fk, y, sd)
            return bad
        if mode == "specified":
            return y, sd
        return y

    def cons(self, X):
        Xc = _c(X)
        out = self.cons0(X)
        self.emit("ConsCall", site=self.site(), X=np.atleast_2d(Xc), verdict=(np.array(out).astype(float).ravel() > 0).copy())
        return out

    # ------------------------------------------------------------------
    def _patch(self, obj, name, make):
        orig = obj.__dict__[name] if isinstance(obj, type) else getattr(obj, name)
        setattr(obj, name, make(orig))
        self.undo.append((obj, name, orig))

    def install(self):
        import pybads.bads.bads as BB
        import pybads.search.es_search as ES
        import pybads.search.search_hedge as SH
        import pybads.bads.gaussian_process_train as GT
        from pybads.function_logger import FunctionLogger
        from pybads.utils.iteration_history import IterationHistory
        import gpyreg
        rec = self
        self.BB = BB

        self.undo.append((BB, "_VERIF_PROBE", BB._VERIF_PROBE))
        BB._VERIF_PROBE = self.probe

        # ---- FunctionLogger.__call__ --------------------------------
        def mk_fl(orig):
            def w(fl, x, record_duplicate_data=True):
                if getattr(fl, "fun", None) is not rec.target_bound:
                    return orig(fl, x, record_duplicate_data)
                ce = {"u": _c(x).ravel(), "rec": bool(record_duplicate_data),
                      "tcalls": [], "site": rec.site()}
                rec.cur_eval = ce
                outcome = "ok"
                ret = None
                try:
                    ret = orig(fl, x, record_duplicate_data)
                    return ret
                except BaseException as e:
                    outcome = type(e).__name__
                    raise
                finally:
                    rec.cur_eval = None
                    rec.last_eval_u = ce["u"]
                    rec.evals_since_loop_end += 1
                    filt = rec.filtered.get(ce["site"])
                    infilt = True if filt is None else (
                        np.ascontiguousarray(np.asarray(ce["u"], dtype=float).ravel()).tobytes() in filt)
                    sf = rec.since_filter.get(ce["site"])
                    ub_ = np.ascontiguousarray(np.asarray(ce["u"], dtype=float).ravel()).tobytes()
                    repstep = bool(sf is not None and ub_ in sf)
                    if sf is not None:
                        sf.add(ub_)
                    rec.emit("Eval", site=ce["site"], u=ce["u"], rec=ce["rec"], infilt=bool(infilt), repstep=repstep,
                             tcalls=ce["tcalls"], outcome=outcome,
                             ret=None if ret is None else (ret[0], ret[1], ret[2]),
                             fc_after=int(fl.func_count), Xn_after=int(fl.Xn),
                             nlogged=int(np.sum(fl.X_flag)))
            return w
        self._patch(FunctionLogger, "__call__", mk_fl)

        # ---- BADS step methods --------------------------------------
        def ctl(b):
            return dict(
                sc=float(b.optim_state["search_count"]), ss=int(b.search_success),
                spree=int(b.search_spree), k=int(b.mesh_size_integer),
                ks=int(b.optim_state["search_size_integer"]),
                fc=int(b.function_logger.func_count),
                iter=int(b.optim_state["iter"]),
                u=_c(b.u).ravel(), ubest=_c(getattr(b, "u_best", b.u)).ravel(),
                yval=float(b.yval), fval=float(b.fval),
                fsd=float(b.fsd) if b.fsd is not None else float("nan"),
                uhl=int(b.optim_state["uncertainty_handling_level"]),
                mesh_size=float(b.optim_state["mesh_size"]),
                nlogged=int(np.sum(b.function_logger.X_flag)),
                budget_eff=float(b.options["max_fun_evals"]),
                search_factor=float(b.optim_state.get("search_factor", 1.0)),
                mesh_overflows=int(getattr(b, "mesh_overflows", 0)),
                lastfitgp=float(b.optim_state.get("lastfitgp", float("-inf"))),
            )

        def mk_step(name, site):
            def make(orig):
                def w(b, *a, **kw):
                    rec.bads = b
                    rec.stack.append(site)
                    rec.filtered.pop(site, None)
                    rec.since_filter.pop(site, None)
                    rec.emit(name + "Begin", **ctl(b))
                    if site == "poll":
                        rec.polled_since_loop_end = True
                    try:
                        r = orig(b, *a, **kw)
                        rec.emit(name + "End", **ctl(b))
                        return r
                    finally:
                        rec.stack.pop()
                return w
            return make
        self._patch(BB.BADS, "_search_step_", mk_step("Search", "search"))
        self._patch(BB.BADS, "_poll_step_", mk_step("Poll", "poll"))

        def mk_initmesh(orig):
            def w(b, *a, **kw):
                rec.bads = b
                rec.stack.append("init_mesh")
                rec.filtered.pop("init_mesh", None)
                rec.since_filter.pop("init_mesh", None)
                try:
                    r = orig(b, *a, **kw)
                    fl = b.function_logger
                    rec.emit("InitDone", fc=int(fl.func_count), Xn=int(fl.Xn),
                             u=_c(b.u).ravel(), yval=float(b.yval),
                             uhl=int(b.optim_state["uncertainty_handling_level"]),
                             tol_noise=float(b.options["tol_noise"]))
                    return r
                finally:
                    rec.stack.pop()
            return w
        self._patch(BB.BADS, "_init_mesh_", mk_initmesh)

        def mk_initopt(orig):
            def w(b, *a, **kw):
                rec.bads = b
                rec.emit("OptimizeBegin")
                r = orig(b, *a, **kw)
                rec.emit("Reserve", budget_eff=float(b.options["max_fun_evals"]),
                         nfinal_eff=float(b.options["noise_final_samples"]),
                         fc=int(b.function_logger.func_count),
                         fsd=float(b.fsd), uhl=int(b.optim_state["uncertainty_handling_level"]),
                         ntry=float(b.options["search_n_try"]),
                         sc=float(b.optim_state["search_count"]),
                         k=int(b.mesh_size_integer),
                         ks=int(b.optim_state["search_size_integer"]),
                         tol_mesh_state=float(b.optim_state["tol_mesh"]),
                         stall_iters=float(b.options["tol_stall_iters"]))
                return r
            return w
        self._patch(BB.BADS, "_init_optimization_", mk_initopt)

        def mk_improve(orig):
            def w(b, f_base, f_new, s_base, s_new, q):
                z = orig(b, f_base, f_new, s_base, s_new, q)
                try:
                    rec.emit("Improve", site=rec.site(),
                             f_base=_c(f_base), f_new=_c(f_new), s_base=_c(s_base),
                             s_new=_c(s_new), q=float(q), z=_c(z))
                except Exception:
                    rec.emit("Improve", site=rec.site(), f_base=None, f_new=None,
                             s_base=None, s_new=None, q=float(q), z=_c(z))
                return z
            return w
        self._patch(BB.BADS, "_eval_improvement_", mk_improve)

        def mk_sto(orig):
            # stochastic-MADS success rule (options['stobads']): log the arguments and the verdict
            def w(b, f_base, f_new, s_base, s_new, frame_size, gamma_uncertain_interval=None):
                r = orig(b, f_base, f_new, s_base, s_new, frame_size, gamma_uncertain_interval)
                try:
                    rec.emit("StoSuccess", site=rec.site(), f_base=_c(f_base), f_new=_c(f_new), s_base=_c(s_base),
                             s_new=_c(s_new), frame=float(frame_size), k=int(b.mesh_size_integer),
                             gamma=None if gamma_uncertain_interval is None else float(gamma_uncertain_interval),
                             power=float(b.options["stobads_frame_size_scaling_power"]), r=_c(r))
                except Exception:
                    rec.emit("StoSuccess", site=rec.site(), f_base=None, f_new=None, s_base=None, s_new=None,
                             frame=None, k=None, gamma=None, power=None, r=_c(r))
                return r
            return w
        if hasattr(BB.BADS, "_sto_success_improvement_"):
            self._patch(BB.BADS, "_sto_success_improvement_", mk_sto)

        def mk_reeval(orig):
            def w(b, gp):
                rec.stack.append("reeval")
                try:
                    return orig(b, gp)
                finally:
                    rec.stack.pop()
            return w
        self._patch(BB.BADS, "_re_evaluate_history_", mk_reeval)

        def mk_updinc(orig):
            def w(b, u_new, yval_new, fval_new, fsd_new):
                r = orig(b, u_new, yval_new, fval_new, fsd_new)
                rec.emit("UpdateIncumbent", site=rec.site(), u=_c(u_new).ravel(),
                         yval=float(yval_new), fval=float(fval_new), fsd=float(fsd_new))
                return r
            return w
        self._patch(BB.BADS, "_update_incumbent_", mk_updinc)

        # ---- candidate filter ---------------------------------------
        def mk_filter(orig, where):
            def w(U, lb, ub, tol_mesh, function_logger, proj=True, non_box_cons=None):
                Uin = _c(U)
                step_site = rec.stack[-1] if rec.stack else None
                rec.stack.append("filter")
                try:
                    out = orig(U, lb, ub, tol_mesh, function_logger, proj, non_box_cons)
                finally:
                    rec.stack.pop()
                if where == "bads" and step_site in ("search", "poll", "init_mesh"):
                    try:
                        rows = np.ascontiguousarray(np.atleast_2d(np.asarray(out, dtype=float)))
                        rec.filtered.setdefault(step_site, set()).update(r_.tobytes() for r_ in rows)
                        rec.since_filter[step_site] = set()
                    except Exception:
                        pass
                try:
                    rec._log_filter(where, Uin, _c(lb), _c(ub), float(tol_mesh),
                                    function_logger, bool(proj), non_box_cons, _c(out))
                except Exception as e:     # observer must never break the run
                    rec.emit("ObserverError", what="filter", err=repr(e),
                             tb=traceback.format_exc()[-800:])
                return out
            return w
        self._patch(BB, "contraints_check", lambda o: mk_filter(o, "bads"))
        self._patch(ES, "contraints_check", lambda o: mk_filter(o, "es"))

        # ---- poll direction generator -------------------------------
        def mk_poll(orig):
            def w(dim_x, poll_scale, search_mesh_size, mesh_size):
                B = orig(dim_x, poll_scale, search_mesh_size, mesh_size)
                b = rec.bads
                rec.emit("PollDirs", B=_c(B), poll_scale=_c(poll_scale).ravel(),
                         search_mesh_size=float(search_mesh_size), mesh_size=float(mesh_size),
                         u=_c(b.u).ravel() if b is not None else None, D=int(dim_x),
                         # the CURRENT mesh size, from the mesh exponent (not from the argument passed)
                         mesh_true=(float(b.options["poll_mesh_multiplier"]) ** int(b.mesh_size_integer))
                         if b is not None else float(mesh_size))
                return B
            return w
        self._patch(BB, "poll_mads_2n", mk_poll)

        # ---- iteration history --------------------------------------
        def mk_record(orig):
            def w(ih, key, value, iteration):
                r = orig(ih, key, value, iteration)
                b = rec.bads
                if b is not None and ih is b.iteration_history and key in (
                        "u", "x", "yval", "fval", "fsd", "mesh_size",
                        "search_mesh_size", "func_count"):
                    v = value
                    try:
                        v = _c(value)
                    except Exception:
                        v = None
                    rec.emit("HistWrite", key=key, iteration=int(iteration), value=v,
                             site=rec.site())
                return r
            return w
        self._patch(IterationHistory, "record", mk_record)

        # ---- GP seams (C15, C16, C18) -------------------------------
        from . import gpseams
        gpseams.install(self, BB, ES, SH, GT, gpyreg)

    def uninstall(self):
        for obj, name, orig in reversed(self.undo):
            setattr(obj, name, orig)
        self.undo = []

    # ------------------------------------------------------------------
    def _log_filter(self, where, Uin, lb, ub, tol, fl, proj, cons, out):
        site = self.site()
        if where == "es":
            fsite = "es"
        elif site == "init_mesh":
            fsite = "init"
        elif site == "search":
            fsite = "search"
        elif site == "poll":
            fsite = "poll"
        else:
            fsite = site
        # the true log (not only the prefix X[:X_max_idx+1] that the filter itself reads)
        try:
            n_true = int(min(max(int(fl.Xn), int(fl.X_max_idx)) + 1, fl.X.shape[0]))
            whole = bool(int(fl.X_max_idx) == int(fl.Xn))
        except Exception:
            n_true, whole = int(fl.X_max_idx + 1), False
        Xlog = fl.X[:n_true].copy()
        out2 = np.atleast_2d(out) if out.size else out.reshape(0, Uin.shape[1] if Uin.ndim == 2 else 0)
        lbv = lb.ravel()
        ubv = ub.ravel()
        n_out = out2.shape[0]
        n_oob = int(np.sum(np.any(out2 < lbv, axis=1) | np.any(out2 > ubv, axis=1))) if n_out else 0
        # exact duplicates among output rows
        n_dup = 0
        if n_out:
            n_dup = n_out - np.unique(out2, axis=0).shape[0]
        # already evaluated: same tol/2 rounding cell AND Chebyshev distance <= tol/2
        n_already = 0
        if n_out and Xlog.shape[0]:
            h = tol / 2.0
            ro = _rowview(np.round(out2 / h) + 0.0)
            rl = _rowview(np.round(Xlog / h) + 0.0)
            hits = np.nonzero(np.isin(ro, rl))[0]
            for i in hits:
                if np.any(np.max(np.abs(Xlog - out2[i]), axis=1) <= h):
                    n_already += 1
        # infeasible (scenario's own constraint function, run's transformer)
        n_infeas = 0
        if n_out and self.cons0 is not None and cons is not None:
            Xo = fl.variable_transformer.inverse_transf(out2)
            n_infeas = int(np.sum(np.array(self.cons0(Xo)).astype(float) > 0))
        # every output row must stem from an input row (projected or kept)
        n_alien = 0
        if n_out:
            Uin2 = np.atleast_2d(Uin)
            cand = np.maximum(np.minimum(Uin2, ubv), lbv) if proj else Uin2
            n_alien = int(np.sum(~np.isin(_rowview(out2 + 0.0), _rowview(cand + 0.0))))
        small = None
        if Uin.ndim == 2 and Uin.shape[0] <= 12:
            small = {"Uin": np.atleast_2d(Uin), "out": out2, "Xlog": Xlog}
        self.emit("Filter", fsite=fsite, proj=proj, lb=lbv, ub=ubv, tol=tol,
                  n_in=int(np.atleast_2d(Uin).shape[0]), n_out=int(n_out), n_oob=n_oob,
                  n_dup=int(n_dup), n_already=int(n_already), n_infeas=int(n_infeas),
                  n_alien=int(n_alien), has_cons=cons is not None,
                  n_logged=int(Xlog.shape[0]), whole=whole, small=small,
                  out=out2 if fsite in ("init", "search", "poll") and n_out <= 64 else None)

    # ------------------------------------------------------------------
    def probe(self, what, loc):
        if what != "loop_end":
            return
        b = loc["self"]
        self.bads = b
        fin = bool(loc["is_finished"])
        dopoll = bool(loc["do_poll_step"])
        ev = self.emit(
            "LoopEnd", loop_iter=int(loc["loop_iter"]), iter=int(loc["poll_iteration"]),
            do_search=bool(loc["do_search_step_flag"]), do_poll=dopoll,
            sc=float(b.optim_state["search_count"]), ss=int(b.search_success),
            spree=int(b.search_spree), k=int(b.mesh_size_integer),
            ks=int(b.optim_state["search_size_integer"]),
            fc=int(b.function_logger.func_count), finished=fin, msg=str(loc["msg"]),
            budget_eff=float(b.options["max_fun_evals"]),
            max_iter=float(b.options["max_iter"]),
            mesh_size_state=float(b.optim_state["mesh_size"]),
            tol_mesh_state=float(b.optim_state["tol_mesh"]),
            u=_c(b.u).ravel(), ubest=_c(b.u_best).ravel(), yval=float(b.yval),
            fval=float(b.fval), fsd=float(b.fsd),
            uhl=int(b.optim_state["uncertainty_handling_level"]),
            nlogged=int(np.sum(b.function_logger.X_flag)),
            stall_iters=float(b.options["tol_stall_iters"]),
            tol_fun=float(b.options["tol_fun"]),
            fq_hist=_c(getattr(b, "f_q_historic_improvement", None)),
        )
        progressed = fin or dopoll or self.evals_since_loop_end > 0
        self.evals_since_loop_end = 0
        self.polled_since_loop_end = False
        if fin:
            self.loop_finished = True
        self.np_count = 0 if progressed else self.np_count + 1
        ntry = float(b.options["search_n_try"])
        bound = max(0.0, 2 * ntry - 2)
        if self.np_count > bound + self.np_slack:
            self.emit("NonProgress", count=self.np_count, bound=bound)
            raise NonProgress(f"{self.np_count} consecutive non-progress loop iterations (bound {bound})")
        if int(loc["loop_iter"]) > self.max_loop:
            self.emit("NonProgress", count=int(loc["loop_iter"]), bound=self.max_loop)
            raise NonProgress("loop iteration cap exceeded")

    # ------------------------------------------------------------------
    def run(self):
        sc = self.sc
        from pybads.bads.bads import BADS  # noqa
        g = S.geom_arrays(sc)
        opts = S.build_options(sc)
        self.opts_given = dict(opts)
        # plain closures (deep-copied by reference inside OptimizeResult)
        rec = self

        def target_fn(x):
            return rec.target(x)

        def cons_fn(X):
            return rec.cons(X)
        self.target_bound = target_fn
        consf = cons_fn if self.cons0 is not None else None
        self.emit("RunBegin", sc=sc, lb=g["lb"], ub=g["ub"], plb=g["plb"], pub=g["pub"], x0=g["x0"])
        self.install()
        bads = None
        try:
            self.stack.append("construct")
            try:
                bads = BADS(self.target_bound, g["x0"], g["lb"], g["ub"], g["plb"], g["pub"],
                            non_box_cons=consf, options=opts)
                self.bads = bads
                self.emit("Construct", outcome="ok", ncalls=self.ncalls,
                          x0=_c(bads.x0), lb_int=_c(bads.var_transf.lb), ub_int=_c(bads.var_transf.ub),
                          plb_int=_c(bads.plausible_lower_bounds), pub_int=_c(bads.plausible_upper_bounds),
                          logmask=np.array(bads.var_transf.apply_log_t).astype(bool).ravel().copy(),
                          u0=_c(bads.u).ravel(),
                          options={k: _optval(bads.options.get(k)) for k in _OPT_KEYS})
            except BaseException as e:
                self.emit("Construct", outcome=type(e).__name__, ncalls=self.ncalls,
                          msg=str(e)[:200])
                return self.events
            finally:
                self.stack.pop()
            try:
                # watchdog: optimize() must terminate (C03); the slowest legitimate run of any panel takes
                # ~20 s under load, the limit is 600 s (VERIF_RUN_LIMIT)
                import signal
                limit = float(os.environ.get("VERIF_RUN_LIMIT", "600"))

                def _alarm(signum, frame):
                    raise RunTimeout("optimize() still running after %.0f s" % limit)
                armed = False
                try:
                    signal.signal(signal.SIGALRM, _alarm)
                    signal.setitimer(signal.ITIMER_REAL, limit)
                    armed = True
                except (ValueError, OSError):
                    pass
                try:
                    res = bads.optimize()
                finally:
                    if armed:
                        signal.setitimer(signal.ITIMER_REAL, 0)
                self._emit_result(bads, res)
            except BaseException as e:
                tb = traceback.extract_tb(e.__traceback__)
                inner = None
                src = ""
                for fr in tb:
                    if "/pybads/" in fr.filename:
                        inner = f"{os.path.relpath(fr.filename, os.path.dirname(os.path.dirname(self.BB.__file__)))}:{fr.lineno}:{fr.name}"
                        src = (fr.line or "").strip()
                self.emit("Crash", type=type(e).__name__, msg=str(e)[:300], frame=inner, src=src,
                          ncalls=self.ncalls,
                          fc=int(bads.function_logger.func_count),
                          final=self._final_state(bads))
        finally:
            self.uninstall()
        return self.events

    def _final_state(self, bads):
        fl = bads.function_logger
        n = fl.Xn + 1
        ih = bads.iteration_history
        def arrs(key):
            v = ih.get(key)
            if v is None:
                return None
            try:
                return [None if e is None else _c(e) for e in v]
            except Exception:
                return None
        return dict(
            X_orig=fl.X_orig[:n].copy(), X=fl.X[:n].copy(), Y_orig=fl.Y_orig[:n].copy().ravel(),
            Y=fl.Y[:n].copy().ravel(), S=fl.S[:n].copy().ravel() if getattr(fl, "S", None) is not None and fl.noise_flag else None,
            n_evals=fl.n_evals[:n].copy().ravel(), X_flag=fl.X_flag[:n].copy(), Xn=int(fl.Xn),
            func_count=int(fl.func_count), X_max_idx=int(fl.X_max_idx),
            cap=int(fl.X.shape[0]),
            hist={k: arrs(k) for k in ("u", "x", "yval", "fval", "fsd", "mesh_size", "search_mesh_size", "func_count")},
            lb_int=_c(bads.var_transf.lb), ub_int=_c(bads.var_transf.ub),
            k=int(bads.mesh_size_integer), mesh_size=float(bads.mesh_size),
        )

    def _emit_result(self, bads, res):
        keys = sorted(dict.keys(res))
        attr_ok = True
        for k in keys:
            try:
                a = getattr(res, k)
                v = res[k]
                if a is not v and not _same(a, v):
                    attr_ok = False
            except Exception:
                attr_ok = False
        self.emit("Result", x=_c(res["x"]), fval=float(res["fval"]), fsd=float(res["fsd"]),
                  func_count=int(res["func_count"]), iterations=int(res["iterations"]),
                  message=str(res["message"]), mesh_size=float(res["mesh_size"]),
                  target_type=str(res["target_type"]), problem_type=str(res["problem_type"]),
                  yval_vec=_c(res["yval_vec"]), ysd_vec=_c(res["ysd_vec"]),
                  x0=_c(res["x0"]), random_seed=res["random_seed"], keys=keys,
                  attr_ok=attr_ok, success=res["success"], ncalls=self.ncalls,
                  final=self._final_state(bads))


def _rowview(a):
    a = np.ascontiguousarray(a, dtype=float)
    return a.view(np.dtype((np.void, a.dtype.itemsize * a.shape[1]))).ravel()


def _same(a, b):
    try:
        if isinstance(a, np.ndarray) or isinstance(b, np.ndarray):
            return np.array_equal(np.asarray(a), np.asarray(b), equal_nan=True)
        return a == b or (a != a and b != b)
    except Exception:
        return False


_OPT_KEYS = ["max_fun_evals", "max_iter", "tol_mesh", "tol_fun", "tol_noise", "tol_stall_iters",
             "search_n_try", "noise_final_samples", "accelerate_mesh", "accelerate_mesh_steps",
             "complete_poll", "skip_poll_after_search", "search_size_locked",
             "search_grid_number", "search_grid_multiplier", "max_poll_grid_number",
             "poll_mesh_multiplier", "search_mesh_expand", "search_mesh_increment",
             "tol_improvement", "forcing_exponent", "sloppy_improvement", "fun_eval_start",
             "n_train_min", "n_train_max", "buffer_ntrain", "gp_radius", "init_mesh_size_integer",
             "uncertainty_handling", "specify_target_noise", "noise_size", "cache_size", "min_refit_time",
             "improvement_quantile", "force_poll_mesh", "stobads", "opp_stobads", "hedge_gamma", "random_seed",
             "remove_points_after_tries", "search_scale_success", "search_scale_incremental", "search_scale_failure",
             "use_effective_radius", "uncertain_incumbent", "nonlinear_scaling"]


def _optval(v):
    if isinstance(v, (bool, int, float, str)) or v is None:
        return v
    try:
        if isinstance(v, np.generic):
            return v.item()
        if isinstance(v, np.ndarray) and v.size == 1:
            return v.item()
    except Exception:
        pass
    return repr(v)


def _fault_value(kind, y, sd):
    """Invalid return values for fault injection (C10)."""
    if kind == "nan":
        return (float("nan"), sd) if sd is not None and kind.endswith("_pair") else float("nan")
    if kind == "nan0d":
        return np.array(float("nan"))
    if kind == "sd_zero_arr":
        return (y, np.array([0.0]))
    if kind == "complex_arr":
        return np.array([complex(y, 3.0)])
    if kind == "complex0d":
        return np.array(complex(y, 2.0))
    if kind == "complex_np":
        return np.complex128(complex(y, 1.5))
    if kind == "inf_arr":
        return np.array([[float("inf")]])
    if kind == "pair_complex_arr":
        return (np.array([complex(y, 3.0)]), sd)
    if kind == "sd_complex_arr":
        return (y, np.array([complex(abs(sd if sd else 1.0), 2.0)]))
    if kind == "sd_neg_arr":
        return (y, np.array(-abs(sd if sd else 1.0)))
    table = {
        "nan": float("nan"), "inf": float("inf"), "-inf": float("-inf"),
        "complex": complex(y, 1.0), "vector": np.array([y, y]), "none": None,
        "string": "oops",
    }
    if kind in table:
        return table[kind]
    # forms for specified noise
    if kind == "pair_nan":
        return (float("nan"), sd)
    if kind == "pair_inf":
        return (float("inf"), sd)
    if kind == "not_pair":
        return y
    if kind == "triple":
        return (y, sd, sd)
    if kind == "sd_zero":
        return (y, 0.0)
    if kind == "sd_neg":
        return (y, -abs(sd if sd else 1.0))
    if kind == "sd_nan":
        return (y, float("nan"))
    if kind == "sd_inf":
        return (y, float("inf"))
    raise ValueError(kind)


def run_scenario(sc, **kw):
    """Run one scenario in this process; returns raw events."""
    r = Recorder(sc, **kw)
    np.random.seed(int(sc.get("pre_seed", 12345)) % (2 ** 31))
    return r.run()
