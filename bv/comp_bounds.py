"""C08 component check: specs/BoundsCheck.tla enumerates every canonical
problem definition of one coordinate with the verdict the property's statement
assigns; each is fed to the real BADS constructor in the spellings the
property lists, D=2,3 definitions are products of class representatives."""
import itertools
import math
import multiprocessing as mp
import os
import shutil

import numpy as np

from .common import MachineryError
from .tlaval import parse_dump
from .tlc import run_tlc

K = 5
NINF, PINF, NAN, NONE = -1, K, K + 1, K + 2

# value maps: rank -> float (ascending).  Verdicts must not depend on the map.
VALUE_MAPS = {
    "mixed": [-3.0, -1.0, 0.5, 2.0, 7.0],
    "zero_mid": [-7.0, -2.0, 0.0, 1.5, 6.0],
    "zero_low": [0.0, 1.0, 2.5, 4.0, 9.0],
    "zero_high": [-9.0, -4.0, -2.5, -1.0, 0.0],
    "decades": [1e-3, 1e-1, 1.0, 50.0, 1e3],
    "integral": [-6.0, -2.0, 1.0, 3.0, 8.0],
    # integer spellings where truncation toward zero lands ON the lower / the upper hard bound
    "integral_pos": [1.0, 2.0, 4.0, 7.0, 12.0],
    "integral_neg": [-12.0, -7.0, -4.0, -2.0, -1.0],
}


def val(code, vmap):
    if code == NINF:
        return -math.inf
    if code == PINF:
        return math.inf
    if code == NAN:
        return math.nan
    return vmap[code]


def spell(field_codes, vmap, spelling):
    """field_codes: list over coordinates of the code of one field, or None (absent)."""
    if field_codes is None:
        return None
    # vmap: one value map for all coordinates, or a list with one map per coordinate
    per_coord = bool(vmap) and isinstance(vmap[0], (list, tuple))
    vals = [val(c, vmap[i] if per_coord else vmap) for i, c in enumerate(field_codes)]
    D = len(vals)
    if spelling == "row":          # (1, D) float array
        return np.array([vals], dtype=float)
    if spelling == "flat":         # (D,) float array
        return np.array(vals, dtype=float)
    if spelling == "list":
        return list(vals)
    if spelling == "tuple":
        return tuple(vals)
    if spelling == "scalar":       # python scalar, D = 1 only
        return vals[0]
    if spelling == "int":          # integer dtype array where representable
        if all(math.isfinite(v) and float(v).is_integer() for v in vals):
            return np.array(vals, dtype=int)
        return np.array(vals, dtype=float)
    raise ValueError(spelling)


def construct(defn, vmap, spelling):
    """defn: dict field -> list of codes per coordinate or None.  Returns outcome dict."""
    import logging
    logging.disable(logging.CRITICAL)
    from pybads.bads.bads import BADS
    calls = [0]

    def fun(x):
        calls[0] += 1
        return float(np.sum(np.asarray(x, dtype=float) ** 2))
    args = {f: spell(defn[f], vmap, spelling) for f in ("x0", "lb", "ub", "plb", "pub")}
    out = {"calls": 0}
    try:
        np.random.seed(4321)
        b = BADS(fun, args["x0"], args["lb"], args["ub"], args["plb"], args["pub"],
                 options={"display": "off", "random_seed": 5})
    except ValueError as e:
        out.update(outcome="ValueError", msg=str(e)[:60].replace("\n", " "), calls=calls[0])
        return out
    except Exception as e:   # any other exception type is not what the property allows
        out.update(outcome=type(e).__name__, msg=str(e)[:80], calls=calls[0])
        return out
    out["outcome"] = "accepted"
    out["calls"] = calls[0]
    os_ = b.optim_state
    lbo, ubo = np.asarray(os_["lb_orig"], float).ravel(), np.asarray(os_["ub_orig"], float).ravel()
    plbo, pubo = np.asarray(os_["plb_orig"], float).ravel(), np.asarray(os_["pub_orig"], float).ravel()
    x0 = np.asarray(b.x0, float).ravel()
    norm = []
    if not (np.all(lbo <= plbo) and np.all(plbo < pubo) and np.all(pubo <= ubo)):
        norm.append("ordered")
    if not np.all(np.isfinite(x0)):
        norm.append("x0_finite")
    else:
        fin = np.isfinite(lbo)
        if np.any(x0[fin] <= lbo[fin]):
            norm.append("x0_strictly_inside")
        fin = np.isfinite(ubo)
        if np.any(x0[fin] >= ubo[fin]):
            norm.append("x0_strictly_inside")
        if np.any(x0 < lbo) or np.any(x0 > ubo):
            norm.append("x0_in_hard_bounds")
    if not (np.all(np.isfinite(plbo)) and np.all(np.isfinite(pubo))):
        norm.append("plausible_finite")
    # the normalised problem in INTERNAL coordinates (what the optimiser works with): no NaN, same ordering
    try:
        li, ui = np.asarray(b.lower_bounds, float).ravel(), np.asarray(b.upper_bounds, float).ravel()
        pli, pui = np.asarray(b.plausible_lower_bounds, float).ravel(), np.asarray(b.plausible_upper_bounds, float).ravel()
        if np.any(np.isnan(li)) or np.any(np.isnan(ui)) or np.any(np.isnan(pli)) or np.any(np.isnan(pui)):
            norm.append("internal_nan")
        elif not (np.all(li <= pli) and np.all(pli < pui) and np.all(pui <= ui)):
            norm.append("internal_ordered")
    except Exception:
        norm.append("internal_unreadable")
    out["norm_bad"] = norm
    out["x0"] = x0.tolist()
    return out


def judge(expected, out):
    """clauses violated by one constructor outcome"""
    bad = []
    if out["calls"] != 0:
        bad.append("C08.no_target_call_at_construction")
    oc = out["outcome"]
    if oc not in ("ValueError", "accepted"):
        bad.append("C08.raises_valueerror_only")
        return bad
    if expected == "invalid" and oc != "ValueError":
        bad.append("C08.invalid_rejected")
    if expected == "valid" and oc != "accepted":
        bad.append("C08.valid_accepted")
    if oc == "accepted" and out.get("norm_bad"):
        bad.append("C08.normalised:" + ",".join(sorted(set(out["norm_bad"]))))
    return bad


def _work(job):
    defn, expected, reason, mapname, spelling = job
    try:
        vm = [VALUE_MAPS[m] for m in mapname.split("|")] if "|" in mapname else VALUE_MAPS[mapname]
        out = construct(defn, vm, spelling)
    except Exception as e:     # harness failure
        return job, {"outcome": "HARNESS:" + repr(e)[:100], "calls": 0}, ["MACH.harness"]
    return job, out, judge(expected, out)


def _short_run(job):
    """run a short optimisation for one (problem, spelling); returns the call log bytes"""
    import logging
    logging.disable(logging.CRITICAL)
    from pybads.bads.bads import BADS
    name, fields, spelling = job
    log = []

    def fun(x):
        x = np.asarray(x, dtype=float).ravel()
        log.append(x.tobytes())
        return float(np.sum((np.log10(np.abs(x) + 1.0) - 0.3) ** 2))
    args = {}
    for f, v in fields.items():
        if v is None:
            args[f] = None
        elif spelling == "row":
            args[f] = np.array([v], dtype=float)
        elif spelling == "flat":
            args[f] = np.array(v, dtype=float)
        elif spelling == "list":
            args[f] = list(v)
        elif spelling == "tuple":
            args[f] = tuple(v)
        elif spelling == "int":
            args[f] = np.array(v, dtype=int)
        elif spelling == "scalar":
            args[f] = v[0]
    try:
        np.random.seed(99)
        b = BADS(fun, args["x0"], args["lb"], args["ub"], args["plb"], args["pub"],
                 options={"display": "off", "random_seed": 17, "max_fun_evals": 25})
        r = b.optimize()
        return job, {"outcome": "ok", "log": log, "x": np.asarray(r.x, float).tobytes(), "fval": float(r.fval),
                     "fc": int(r.func_count)}
    except Exception as e:
        return job, {"outcome": type(e).__name__ + ": " + str(e)[:80], "log": log}


SPELL_PROBLEMS = {
    # all values integral so that the integer spelling denotes the same vectors
    "box2": {"x0": [1, -2], "lb": [-10, -10], "ub": [10, 10], "plb": [-5, -5], "pub": [5, 5]},
    "log2": {"x0": [3, 20], "lb": [1, 1], "ub": [1000, 2000], "plb": [2, 2], "pub": [500, 400]},
    "mixed2": {"x0": [3, 0], "lb": [1, -4], "ub": [1000, 4], "plb": [2, -2], "pub": [500, 2]},
    "nox0": {"x0": None, "lb": [-8, -8], "ub": [8, 8], "plb": [-2, -2], "pub": [2, 2]},
    "noplaus": {"x0": [1, 1], "lb": [-6, -6], "ub": [6, 6], "plb": None, "pub": None},
    "box1": {"x0": [2], "lb": [-10], "ub": [10], "plb": [-5], "pub": [5]},
    "log1": {"x0": [7], "lb": [1], "ub": [1000], "plb": [2], "pub": [500]},
    "onbound2": {"x0": [0, 10], "lb": [0, -10], "ub": [10, 10], "plb": [2, -5], "pub": [8, 5]},
    "onbound1": {"x0": [-10], "lb": [-10], "ub": [10], "plb": [-5], "pub": [5]},
    "onboundlog2": {"x0": [1, 2000], "lb": [1, 1], "ub": [1000, 2000], "plb": [2, 2], "pub": [500, 400]},
    "box3": {"x0": [1, -2, 3], "lb": [-10, -10, -10], "ub": [10, 10, 10], "plb": [-5, -5, -5], "pub": [5, 5, 5]},
}


def spelling_runs(verdict, tier):
    jobs = []
    for name, fields in SPELL_PROBLEMS.items():
        D = len(fields["lb"])
        sps = ["row", "flat", "list", "tuple", "int"] + (["scalar"] if D == 1 else [])
        for sp in sps:
            jobs.append((name, fields, sp))
    ctx = mp.get_context("fork")
    res = {}
    with ctx.Pool(min(len(jobs), os.cpu_count() or 4)) as pool:
        for job, out in pool.imap_unordered(_short_run, jobs):
            res[(job[0], job[2])] = out
    n_cmp = 0
    for name in SPELL_PROBLEMS:
        ref = res[(name, "row")]
        if ref["outcome"] != "ok":
            verdict.violation("C08.valid_accepted", site="BADS.run:row", where=f"problem={name}",
                              detail={"outcome": ref["outcome"]})
            continue
        for (nm, sp), out in res.items():
            if nm != name or sp == "row":
                continue
            n_cmp += 1
            if out["outcome"] != "ok":
                verdict.violation("C08.spellings_define_same_problem", site=f"BADS.run:{sp}",
                                  where=f"problem={name}", detail={"outcome": out["outcome"]})
            elif out["log"] != ref["log"] or out["x"] != ref["x"] or out["fval"] != ref["fval"]:
                first = next((i for i, (a, b) in enumerate(zip(out["log"], ref["log"])) if a != b), min(len(out["log"]), len(ref["log"])))
                verdict.violation("C08.spellings_produce_same_run", site=f"BADS.run:{sp}",
                                  where=f"problem={name}", detail={"first_difference_at_call": first,
                                                                   "n_calls": [len(out["log"]), len(ref["log"])]})
    verdict.coverage["bounds_spelling_runs_compared"] = n_cmp
    return n_cmp


def vec_verdict(coord_reasons, defn):
    """verdict of a D-dimensional definition from its coordinates (same rule as the spec:
    invalid if some coordinate is invalid, open if some coordinate is open)."""
    if any(r not in ("ok", "x0_nonfinite") for r in coord_reasons):
        return "invalid"
    if any(r == "x0_nonfinite" for r in coord_reasons):
        return "either"
    return "valid"


def run(verdict, tier):
    r = run_tlc("BoundsCheck", timeout=600, dump="out", keep=True)
    if not r.ok:
        if r.violated:
            verdict.violation("C08.design_model:" + ",".join(r.violated), site="BoundsCheck.tla", where="D=1")
        else:
            raise MachineryError("BoundsCheck TLC failed: %s\n%s" % (r.summary(), r.output[-1500:]))
    states = parse_dump(os.path.join(r.workdir, "out.dump"))
    shutil.rmtree(r.workdir, ignore_errors=True)
    jobs = []
    # ---- D = 1: every canonical definition ------------------------------------
    for si, st in enumerate(states):
        defn = {f: (None if st[f] == NONE else [st[f]]) for f in ("x0", "lb", "ub", "plb", "pub")}
        for mi, mapname in enumerate(("mixed", "zero_mid", "zero_low", "zero_high", "decades")):
            if tier == "quick" and mi >= 1 and (si + mi) % 3:
                continue
            jobs.append((defn, st["verdict"], st["reason"], mapname, "row"))
        for sp in ("flat", "list", "tuple", "scalar", "int"):
            if tier == "quick" and (si % 10) != hash(sp) % 10:
                continue
            jobs.append((defn, st["verdict"], st["reason"], "integral" if sp == "int" else "mixed", sp))
        # x0 given ON a finite hard bound: every integer-dtype spelling (the constructor must move it inside
        # whatever the dtype of the caller's array)
        if st["x0"] != NONE and st["x0"] in (st["lb"], st["ub"]) and 0 <= st["x0"] < K:
            for mapname in ("integral", "integral_pos", "integral_neg"):
                jobs.append((defn, st["verdict"], st["reason"], mapname, "int"))
    # ---- D = 2, 3: products of class representatives ----------------------------
    reps = {}
    for st in states:
        # fields present/absent must agree across coordinates: group by presence mask
        mask = tuple(st[f] == NONE for f in ("x0", "lb", "ub", "plb", "pub"))
        hard = ("unb" if (st["lb"] in (NINF, NONE) and st["ub"] in (PINF, NONE)) else "bnd")
        key = (mask, st["reason"], hard)
        reps.setdefault(key, []).append(st)
    by_mask = {}
    for (mask, reason, hard), sts in reps.items():
        pick = sts[:: max(1, len(sts) // (2 if tier == "quick" else 4))][: (2 if tier == "quick" else 4)]
        by_mask.setdefault(mask, []).extend((reason, s) for s in pick)
    n_prod = 0
    for mask, lst in by_mask.items():
        valid_like = [(r_, s) for (r_, s) in lst if r_ in ("ok", "x0_nonfinite")]
        others = [(r_, s) for (r_, s) in lst if r_ not in ("ok", "x0_nonfinite")]
        # one representative per (reason, hard-bound kind) for invalid x invalid products, so that defects of
        # DIFFERENT coordinates that could mask each other are combined (e.g. bounded below only + above only)
        seen_r = set()
        inv_reps = []
        for (r_, s_) in others:
            key_r = (r_, s_["lb"] == NINF or s_["lb"] == NONE, s_["ub"] == PINF or s_["ub"] == NONE)
            if key_r not in seen_r:
                seen_r.add(key_r)
                inv_reps.append((r_, s_))
        half = [(r_, s_) for (r_, s_) in others if r_ == "half_bounded"]
        pairs = list(itertools.product(valid_like, valid_like)) + \
            list(itertools.product(valid_like[:3], others)) + list(itertools.product(others, valid_like[:3])) + \
            list(itertools.product(inv_reps, inv_reps)) + list(itertools.product(half, half))
        for (r1, s1), (r2, s2) in pairs:
            defn = {f: (None if s1[f] == NONE else [s1[f], s2[f]]) for f in ("x0", "lb", "ub", "plb", "pub")}
            exp = vec_verdict([r1, r2], defn)
            for sp in ("row", "list") if tier == "quick" else ("row", "flat", "list", "tuple", "int"):
                jobs.append((defn, exp, r1 + "+" + r2, "integral" if sp == "int" else "mixed", sp))
                n_prod += 1
        if tier == "thorough" or len(valid_like) >= 2:
            for trip in itertools.islice(itertools.product(valid_like[:3], valid_like[:3], (valid_like + others)[:6]), 40):
                (r1, s1), (r2, s2), (r3, s3) = trip
                defn = {f: (None if s1[f] == NONE else [s1[f], s2[f], s3[f]]) for f in ("x0", "lb", "ub", "plb", "pub")}
                jobs.append((defn, vec_verdict([r1, r2, r3], defn), "+".join([r1, r2, r3]), "mixed", "row"))
                n_prod += 1
    # ---- mixed kinds of coordinates in one problem (per-coordinate value maps): a log-eligible coordinate (all four
    # bounds positive, plausible range over decades) next to an unbounded / a bounded linear one, in every order
    A = {"x0": 2, "lb": 0, "ub": 4, "plb": 1, "pub": 3}          # with map 'decades': 1e-3 | 0.1 .. 50 | 1e3, x0 = 1
    U = {"x0": 2, "lb": NINF, "ub": PINF, "plb": 1, "pub": 3}    # with map 'mixed': unbounded, plausible -1 .. 2, x0 = 0.5
    L = {"x0": 2, "lb": 0, "ub": 4, "plb": 1, "pub": 3}          # with map 'mixed': -3 | -1 .. 2 | 7, x0 = 0.5
    for coords, maps in (((A, U), "decades|mixed"), ((U, A), "mixed|decades"), ((A, L), "decades|mixed"),
                         ((A, U, L), "decades|mixed|mixed"), ((U, L, A), "mixed|mixed|decades"), ((A, A, U), "decades|decades|mixed")):
        defn = {f: [c[f] for c in coords] for f in ("x0", "lb", "ub", "plb", "pub")}
        for sp in ("row", "list", "flat"):
            jobs.append((defn, "valid", "mixed_kinds", maps, sp))
        defn2 = dict(defn)
        defn2["x0"] = None
        jobs.append((defn2, "valid", "mixed_kinds", maps, "row"))
    # ---- x0 strictly inside but close to a hard bound of a log-transformed coordinate: snapping to the search mesh
    # may carry the start past the bound, from where the constructor must pull it back -- a valid definition
    near_jobs = []
    for (lbv, ubv, plv, puv) in ((1.0, 1000.0, 3.0, 700.0), (0.5, 2500.0, 15.0, 800.0), (1e-3, 640.0, 0.03, 200.0),
                                 (2.0, 87.0, 4.0, 60.0), (1.0, 1000.0, 30.0, 50.0 * 7)):
        for frac in (0.9981, 0.9985, 0.9989, 0.99895, 0.9983, 0.9987):
            x0v = lbv + frac * (ubv - lbv)
            near_jobs.append((x0v, lbv, ubv, plv, puv))
    for k, (x0v, lbv, ubv, plv, puv) in enumerate(near_jobs):
        vm = "near:%d" % k
        VALUE_MAPS[vm] = [lbv, plv, x0v, puv, ubv]
        defn = {"x0": [2], "lb": [0], "ub": [4], "plb": [1], "pub": [3]}
        jobs.append((defn, "valid", "x0_near_log_bound", vm, "row" if k % 2 else "list"))
        if k % 5 == 0:     # as one coordinate of a 2-D problem
            VALUE_MAPS[vm + "b"] = [-3.0, -1.0, 0.5, 2.0, 7.0]
            defn2 = {"x0": [2, 2], "lb": [0, 0], "ub": [4, 4], "plb": [1, 1], "pub": [3, 3]}
            jobs.append((defn2, "valid", "x0_near_log_bound", vm + "|" + vm + "b", "row"))
    # ---- ulp-neighbour cells: numerically indistinguishable hard bounds ----------
    ulp_jobs = []
    for base in (1.0, -3.0, 0.0, 1e6, -1e-3, 123456.789):
        for k, exp in ((1, "invalid"), (2, "either"), (10, "either"), (400, "either"), (5000, "either")):
            ub = base
            for _ in range(k):
                ub = float(np.nextafter(ub, np.inf))
            for x0mode in ("none", "lb", "ub"):
                ulp_jobs.append((base, ub, x0mode, exp, k))
    for (lbv, ubv, x0mode, exp, k) in ulp_jobs:
        vm = "ulp:%r:%r" % (lbv, ubv)
        VALUE_MAPS[vm] = [lbv, ubv, lbv, lbv, lbv]
        defn = {"x0": None if x0mode == "none" else [0 if x0mode == "lb" else 1], "lb": [0], "ub": [1],
                "plb": None, "pub": None}
        jobs.append((defn, exp, "ulp_gap_%d" % k, vm, "row"))
    # ---- run -------------------------------------------------------------------
    ctx = mp.get_context("fork")
    n = os.cpu_count() or 4
    counts = {"accepted": 0, "ValueError": 0, "other": 0}
    samples = []
    with ctx.Pool(n, maxtasksperchild=4000) as pool:
        for job, out, bad in pool.imap_unordered(_work, jobs, chunksize=64):
            oc = out["outcome"]
            counts[oc if oc in counts else "other"] += 1
            defn, expected, reason, mapname, spelling = job
            for clause in bad:
                if clause.startswith("MACH."):
                    raise MachineryError("bounds harness failed: %s" % out)
                D = len(next(v for v in defn.values() if v is not None)) if any(v is not None for v in defn.values()) else 0
                verdict.violation(clause, site=f"BADS.__init__:{spelling}",
                                  where=f"def={defn} map={mapname} expected={expected}({reason})",
                                  detail={"outcome": oc, "msg": out.get("msg"), "norm_bad": out.get("norm_bad"),
                                          "x0": out.get("x0"), "D": D, "spelling": spelling,
                                          "reason": reason, "expected": expected})
            if len(samples) < 4 and reason in ("ok", "half_bounded", "x0_outside", "not_ordered") and \
                    not any(s["reason"] == reason for s in samples):
                samples.append({"definition": defn, "value_map": mapname, "spelling": spelling,
                                "expected": expected, "reason": reason, "outcome": oc})
    verdict.coverage.update({
        "bounds_states": r.distinct_states, "bounds_constructor_cases": len(jobs),
        "bounds_outcomes": counts, "bounds_product_cases_D2_D3": n_prod, "bounds_samples": samples,
    })
    n_cmp = spelling_runs(verdict, tier)
    return r.distinct_states, len(jobs) + n_cmp
