"""Projection of raw recorder events to the integer/boolean event vocabulary
of specs/BadsRunTrace.tla (see DESIGN.md section 4 and appendix A).

Devices: point identity by index (pid: original coordinates, uid: internal
coordinates), dense order-isomorphic ranks per sort of float, exact integers,
and numeric guards computed independently from values the recorder captured.
"""
import math

import numpy as np
from scipy.special import erfcinv

MSG = {
    "": "",
    "Optimization terminated: reached maximum number of function evaluations options['max_fun_evals'].": "maxfun",
    "Optimization terminated: reached maximum number of iterations options['max_iter'].": "maxiter",
    "Optimization terminated: change in the function value less than options['tol_mesh']": "tolmesh",
    "Optimization terminated: change in the function value less than options['tol_fun'].": "tolfun",
    "Optimization terminated: stopped by options['output_fcn'].": "outfcn",
}


def _norm(a):
    a = np.array(a, dtype=float).ravel() + 0.0     # -0.0 -> 0.0
    return a


def _key(a):
    return _norm(a).tobytes()


class Ranker:
    """dense rank of a float among all registered floats of one sort"""

    def __init__(self):
        self.vals = set()
        self.map = None

    def add(self, v):
        v = float(v)
        if not math.isnan(v):
            self.vals.add(v + 0.0)

    def freeze(self):
        self.map = {v: i for i, v in enumerate(sorted(self.vals))}

    def __call__(self, v):
        v = float(v)
        if math.isnan(v):
            return -1
        return self.map[v + 0.0]


def _log2int(v):
    """exact integer k with 2**k == v, else None"""
    if v is None or not (v > 0) or not math.isfinite(v):
        return None
    m, e = math.frexp(v)
    if m == 0.5:
        return e - 1
    return None


def _improve_z(ev):
    """independent recomputation of the improvement from logged arguments"""
    fb, fn, sb, sn, q = ev["f_base"], ev["f_new"], ev["s_base"], ev["s_new"], ev["q"]
    if fb is None or fn is None:
        return None
    mu = np.asarray(fb, dtype=float) - np.asarray(fn, dtype=float)
    if sb is None or sn is None:
        return mu
    sigma = np.sqrt(np.asarray(sb, dtype=float) ** 2 + np.asarray(sn, dtype=float) ** 2)
    x0 = -math.sqrt(2) * float(erfcinv(2 * q))
    return sigma * x0 + mu


def _sto_verdict(ev, pmm=2.0):
    """independent recomputation of the stochastic-MADS verdict (Audet et al. 2021, as adopted by the code):
    1 success, 0 uncertain, -1 certain failure; None when the logged arguments are unusable.  The frame size
    must be the current poll mesh size."""
    try:
        fb = float(np.asarray(ev["f_base"], dtype=float).ravel()[0])
        fn = float(np.asarray(ev["f_new"], dtype=float).ravel()[0])
        sb = float(np.asarray(ev["s_base"], dtype=float).ravel()[0])
        sn = float(np.asarray(ev["s_new"], dtype=float).ravel()[0])
        frame = float(pmm) ** int(ev["k"])
        gamma = 1.96 if ev["gamma"] is None else float(ev["gamma"])
        ub = gamma * math.sqrt(sb * sb + sn * sn) * frame ** float(ev["power"])
        mu = fb - fn
        if not (math.isfinite(mu) and math.isfinite(ub)):
            return None
        return 1 if mu >= ub else (-1 if mu <= -ub else 0)
    except Exception:
        return None


def project(events, run_index=0):
    """Return (list of projected events, info dict)."""
    out = []
    info = {"actions": {}, "n_evals": 0}
    rb = events[0]
    assert rb["ev"] == "RunBegin"
    sc = rb["sc"]
    D = sc["D"]
    mode = sc.get("noise", {}).get("mode", "det")
    lb = np.full(D, -np.inf) if rb["lb"] is None else rb["lb"].ravel()
    ub = np.full(D, np.inf) if rb["ub"] is None else rb["ub"].ravel()

    cons_ev = next((e for e in events if e["ev"] == "Construct"), None)
    opts = cons_ev.get("options", {}) if cons_ev and cons_ev["outcome"] == "ok" else {}
    lbI = cons_ev["lb_int"].ravel() if cons_ev and cons_ev["outcome"] == "ok" else None
    ubI = cons_ev["ub_int"].ravel() if cons_ev and cons_ev["outcome"] == "ok" else None

    # ---------------- pass 1: register floats, assign ids ------------------
    RO = [Ranker() for _ in range(D)]     # original coordinates per axis
    RU = [Ranker() for _ in range(D)]     # internal coordinates per axis
    RY = Ranker()                         # observed objective values
    RS = Ranker()                         # reported SDs
    pids, uids = {}, {}

    def reg_x(x):
        x = _norm(x)
        for i in range(D):
            RO[i].add(x[i])

    def reg_u(u):
        u = _norm(u)
        for i in range(D):
            RU[i].add(u[i])

    for i in range(D):
        RO[i].add(lb[i]); RO[i].add(ub[i])
        if lbI is not None:
            RU[i].add(lbI[i]); RU[i].add(ubI[i])
    final = None
    for e in events:
        t = e["ev"]
        if t == "Eval":
            reg_u(e["u"])
            for tc in e["tcalls"]:
                reg_x(tc["x"])
                if "y" in tc and tc["y"] is not None:
                    RY.add(tc["y"])
                if tc.get("sd") is not None:
                    RS.add(tc["sd"])
        elif t == "StrayCall":
            reg_x(e["x"])
        elif t == "Result":
            reg_x(e["x"])
            final = e["final"]
            if e["yval_vec"] is not None:
                for v in np.asarray(e["yval_vec"]).ravel():
                    RY.add(v)
            if e["ysd_vec"] is not None:
                for v in np.asarray(e["ysd_vec"]).ravel():
                    RS.add(v)
            RY.add(e["fval"])
        elif t == "Crash":
            final = e.get("final")
        elif t == "HistWrite":
            if e["key"] == "yval" and e["value"] is not None:
                RY.add(float(np.asarray(e["value"]).ravel()[0]))
            elif e["key"] == "x" and e["value"] is not None:
                reg_x(e["value"])
            elif e["key"] == "u" and e["value"] is not None:
                reg_u(e["value"])
        elif t in ("SearchEnd", "PollEnd", "LoopEnd", "InitDone"):
            RY.add(e["yval"])
            reg_u(e["u"])
    for r in RO + RU + [RY, RS]:
        r.freeze()

    def xR(x):
        x = _norm(x)
        return [RO[i](x[i]) for i in range(D)]

    def uR(u):
        u = _norm(u)
        return [RU[i](u[i]) for i in range(D)]

    def pid_of(x, create=False):
        k = _key(x)
        if k not in pids:
            if not create:
                return -1
            pids[k] = len(pids)
        return pids[k]

    def uid_of(u, create=False):
        k = _key(u)
        if k not in uids:
            if not create:
                return -1
            uids[k] = len(uids)
        return uids[k]

    def ev(name, **kw):
        kw["e"] = name
        kw["r"] = run_index
        out.append(kw)
        info["actions"][name] = info["actions"].get(name, 0) + 1
        return kw

    # ---------------- run begin -------------------------------------------
    o_given = sc.get("options", {})
    x0_viol = False
    consf = None
    if sc.get("cons") is not None:
        from . import scenarios as S
        consf = S.make_cons(sc["cons"], D)
        if rb["x0"] is not None:
            x0_viol = bool(np.any(np.array(consf(rb["x0"])).astype(float) > 0))
    ev("RunBegin", sid=str(sc.get("id", "?")), D=D, noise=mode, hascons=consf is not None,
       x0given=rb["x0"] is not None, x0viol=x0_viol,
       lbR=[RO[i](lb[i]) for i in range(D)], ubR=[RO[i](ub[i]) for i in range(D)])

    if cons_ev is None:
        ev("RunEnd")
        return out, info
    # constructor-time constraint calls with a single row (x0, snapped x0)
    cviol = []
    for e in events:
        if e["ev"] == "ConsCall" and e["site"] == "construct" and e["X"].shape[0] == 1:
            cviol.append(bool(e["verdict"][0]))
        if e["ev"] == "Construct":
            break
    if cons_ev["outcome"] != "ok":
        ev("Construct", outcome=cons_ev["outcome"], ncalls=cons_ev["ncalls"], consviol=cviol,
           cfg=_empty_cfg(D))
        ev("RunEnd")
        return out, info

    def oi(name, default=0):
        v = opts.get(name, default)
        if v is None:
            return default
        if isinstance(v, bool):
            return v
        if isinstance(v, float) and math.isinf(v):
            return 2 ** 30 if v > 0 else -(2 ** 30)
        return int(v)

    tol_mesh = float(opts.get("tol_mesh", 1e-6))
    pmm = float(opts.get("poll_mesh_multiplier", 2.0))
    ktol = int(math.ceil(math.log(tol_mesh) / math.log(pmm)))
    cfg = dict(
        budget=oi("max_fun_evals"), maxiter=oi("max_iter"), ktol=ktol, ntry=oi("search_n_try"),
        nfinal=oi("noise_final_samples"), accel=bool(opts.get("accelerate_mesh")),
        accelsteps=oi("accelerate_mesh_steps"), completepoll=bool(opts.get("complete_poll")),
        skippoll=bool(opts.get("skip_poll_after_search")), locked=bool(opts.get("search_size_locked")),
        gnum=oi("search_grid_number"), gmult=oi("search_grid_multiplier"),
        kcap=oi("max_poll_grid_number"), expand=oi("search_mesh_expand"),
        incr=oi("search_mesh_increment"), stalliters=oi("tol_stall_iters"),
        k0=oi("init_mesh_size_integer"), pow2=(pmm == 2.0),
        funevalstart=oi("fun_eval_start"), minrefit=oi("min_refit_time"),
        sloppy=bool(opts.get("sloppy_improvement", True)),
        removeafter=oi("remove_points_after_tries", 1),
        sfdefault=bool(abs(float(opts.get("search_scale_success", math.sqrt(2))) - math.sqrt(2)) < 1e-12
                       and abs(float(opts.get("search_scale_incremental", 2.0)) - 2.0) < 1e-12
                       and abs(float(opts.get("search_scale_failure", math.sqrt(0.5))) - math.sqrt(0.5)) < 1e-12),
    )
    ev("Construct", outcome="ok", ncalls=cons_ev["ncalls"], consviol=cviol, cfg=cfg,
       lbI=[RU[i](lbI[i]) for i in range(D)], ubI=[RU[i](ubI[i]) for i in range(D)])

    tol_improvement = float(opts.get("tol_improvement", 1))
    forcing = float(opts.get("forcing_exponent", 1.5))
    tol_fun = float(opts.get("tol_fun", 1e-3))
    sloppy = bool(opts.get("sloppy_improvement", True))
    tol_noise = float(opts.get("tol_noise", 0.0))
    # stochastic-MADS success rule: replaces the forcing-function test in noisy runs (the code switches it off for
    # deterministic targets); opportunistic variant moves the incumbent unless the verdict is a certain failure
    stobads = bool(opts.get("stobads")) and mode != "det"
    opp = bool(opts.get("opp_stobads", True))

    # ---------------- pass 2: emit ----------------------------------------
    n_init_evals = 0
    first_two = []
    cur_step = None        # dict for the search/poll step in progress
    pending_improve = []   # Improve events at top level since last LoopEnd
    hist_buf = {}
    last_eval_proj = None
    step_after_end = False
    tf = final
    tr = None              # the run's transformer is not available; maps_back via final log

    def threshold(k):
        thr = tol_improvement * (pmm ** k) ** forcing
        if sloppy:
            thr = max(thr, tol_fun)
        return thr

    kcur = cfg["k0"]
    for idx, e in enumerate(events):
        t = e["ev"]
        if t == "OptimizeBegin":
            ev("OptimizeBegin")
        elif t == "StrayCall":
            ev("StrayCall", n=e["n"], pid=pid_of(e["x"], True))
        elif t == "ObserverError":
            ev("ObserverError", what=e["what"])
            info.setdefault("observer_errors", []).append(e)
        elif t == "NonProgress":
            ev("NonProgress", count=int(e["count"]))
        elif t == "Eval":
            info["n_evals"] += 1
            site = e["site"]
            tcs = e["tcalls"]
            if site == "init_mesh":
                n_init_evals += 1
                if n_init_evals == 1:
                    kind = "x0"
                elif not e["rec"]:
                    kind = "noisetest"
                else:
                    kind = "init"
            elif site in ("search", "poll"):
                kind = site
            elif site == "final" or (site == "top" and not e["rec"] and any(x["e"] == "Reserve" for x in out)):
                kind = "final"        # re-sampling after the loop (also when the loop never ran)
            else:
                kind = "other"
            tc = tcs[0] if tcs else None
            okret = e["outcome"] == "ok"
            p = dict(kind=kind, rec=bool(e["rec"]), ntc=len(tcs), outcome="ok" if okret else e["outcome"],
                     fc=e["fc_after"], nlogged=e["nlogged"],
                     uid=uid_of(e["u"], True), uR=uR(e["u"]), infilt=bool(e.get("infilt", True)),
                     repstep=bool(e.get("repstep", False)))
            if tc is not None:
                p["n"] = tc["n"]
                p["pid"] = pid_of(tc["x"], True)
                p["xR"] = xR(tc["x"])
                p["yR"] = RY(tc["y"]) if tc.get("y") is not None else -1
                p["sdR"] = RS(tc["sd"]) if tc.get("sd") is not None else -1
                p["viol"] = bool(consf is not None and np.any(np.array(consf(tc["x"].reshape(1, -1))).astype(float) > 0))
                p["fault"] = tc.get("fault") or ""
                if len(first_two) < 2 and tc.get("y") is not None:
                    first_two.append((kind, tc["y"]))
            else:
                p.update(n=-1, pid=-1, xR=[-1] * D, yR=-1, sdR=-1, viol=False, fault="")
            # value handed back by the logger equals the target's value (guard)
            retok = True
            if okret and tc is not None and e["ret"] is not None and tc.get("y") is not None:
                try:
                    rv = float(np.asarray(e["ret"][0]).ravel()[0])
                    retok = (rv == tc["y"]) or mode == "specified"
                except Exception:
                    retok = False
            p["retok"] = bool(retok)
            # poll offset integerisation
            p["d"] = [0] * D
            p["dq"] = True
            if kind == "poll" and cur_step is not None and cur_step.get("dirs_ev") is not None:
                de = cur_step["dirs_ev"]
                off = (np.asarray(e["u"]) - de["u"]) / de.get("mesh_true", de["mesh_size"])
                dd = np.round(off)
                tol_off = 1e-6 * np.maximum(1.0, np.abs(dd))
                if bool(opts.get("force_poll_mesh", False)):
                    # options['force_poll_mesh']: the poll points are snapped onto the (absolute) search grid, which
                    # moves them by up to half a search-mesh cell when the incumbent itself is not a grid point
                    # (e.g. a start nudged onto a hard bound) -- "up to rounding" in C14's statement
                    tol_off = tol_off + 0.5 * float(de["search_mesh_size"]) / float(de.get("mesh_true", de["mesh_size"]))
                p["dq"] = bool(np.all(np.abs(off - dd) <= tol_off))
                p["d"] = [int(v) for v in dd]
            elif kind == "poll":
                p["dq"] = False
            if cur_step is not None:
                cur_step["evals"].append((e, p))
            ev("Eval", **p)
            last_eval_proj = p
        elif t == "ConsCall":
            X = e["X"]
            noob = int(np.sum(np.any(X < lb, axis=1) | np.any(X > ub, axis=1)))
            ev("ConsCall", site=e["site"], n=int(X.shape[0]), noob=noob,
               nviol=int(np.sum(e["verdict"])))
        elif t == "Filter":
            ev("Filter", site=e["fsite"], proj=bool(e["proj"]), nin=e["n_in"], nout=e["n_out"],
               noob=e["n_oob"], ndup=e["n_dup"], nalready=e["n_already"],
               ninfeas=e["n_infeas"], nalien=e["n_alien"], hascons=bool(e["has_cons"]),
               whole=bool(e.get("whole", False)))
        elif t == "InitDone":
            nd = False
            if len(first_two) == 2 and first_two[1][0] == "noisetest":
                nd = abs(first_two[0][1] - first_two[1][1]) > tol_noise
            ev("InitDone", fc=e["fc"], nlogged=e["Xn"] + 1, incuid=uid_of(e["u"]),
               incyR=RY(e["yval"]), uhl=e["uhl"], noisediff=bool(nd),
               tested=bool(len(first_two) == 2 and first_two[1][0] == "noisetest"))
        elif t == "Reserve":
            ev("Reserve", budgeteff=_i(e["budget_eff"]),
               nfinaleff=_i(e["nfinal_eff"]) if e["uhl"] > 0 else 0, fc=e["fc"],
               sc=_i(e["sc"]), k=e["k"], ks=e["ks"], uhl=e["uhl"], ntry=_i(e["ntry"]),
               stalliters=_i(e["stall_iters"]))
            kcur = e["k"]
        elif t == "SearchBegin":
            cur_step = {"kind": "search", "begin": e, "evals": [], "improves": [], "dirs_ev": None}
            ev("SearchBegin", sc=_i(e["sc"]), ss=e["ss"], k=e["k"], ks=e["ks"], fc=e["fc"],
               incuid=uid_of(e["ubest"]), incyR=RY(e["yval"]))
        elif t == "Predict1":
            if cur_step is not None:
                cur_step.setdefault("predicts", []).append(e)
        elif t == "Improve":
            if cur_step is not None and e["site"] in ("search", "poll"):
                cur_step["improves"].append(e)
            elif e["site"] in ("top", "final"):
                pending_improve.append((idx, e))
        elif t == "StoSuccess":
            if cur_step is not None and e["site"] in ("search", "poll"):
                cur_step.setdefault("stos", []).append(e)
        elif t == "SearchEnd":
            st = cur_step
            cur_step = None
            imps = st["improves"]
            z = _improve_z(imps[-1]) if imps else None
            thr = threshold(st["begin"]["k"])
            nev = len(st["evals"])
            imp_pos = bool(z is not None and np.all(np.asarray(z) > 0))
            imp_suff = bool(z is not None and np.all(np.asarray(z) > thr))
            if stobads:
                stos = st.get("stos", [])
                sv = _sto_verdict(stos[-1], pmm) if stos else None
                imp_suff = bool(sv == 1)
                imp_pos = bool(sv is not None and (sv > -1 if opp else sv == 1))
            # det: the compared value must be the observation just made
            fnew_obs = True
            if imps and nev and mode == "det":
                try:
                    fnew_obs = float(np.asarray(imps[-1]["f_new"]).ravel()[0]) == st["evals"][-1][0]["tcalls"][0]["y"]
                except Exception:
                    fnew_obs = False
            ev("SearchEnd", sc=_i(e["sc"]), ss=e["ss"], k=e["k"], ks=e["ks"], fc=e["fc"],
               nev=nev, imppos=imp_pos if nev else False, impsuff=imp_suff if nev else False,
               fnewobs=bool(fnew_obs), incuid=uid_of(e["ubest"]), incyR=RY(e["yval"]),
               evuid=st["evals"][-1][1]["uid"] if nev else -1,
               evyR=st["evals"][-1][1]["yR"] if nev else -1,
               sf2=_sf2(e.get("search_factor", 1.0)), sf2b=_sf2(st["begin"].get("search_factor", 1.0)))
        elif t == "PollBegin":
            cur_step = {"kind": "poll", "begin": e, "evals": [], "improves": [], "dirs_ev": None}
            ev("PollBegin", k=e["k"], ks=e["ks"], fc=e["fc"], iter=e["iter"],
               incuid=uid_of(e["ubest"]), incyR=RY(e["yval"]))
        elif t == "PollDirs":
            if cur_step is not None:
                cur_step["dirs_ev"] = e
            B = e["B"] * e["poll_scale"]
            Bi = np.round(B)
            quant = bool(np.all(np.abs(B - Bi) <= 1e-6 * np.maximum(1.0, np.abs(Bi))))
            Bi = Bi.astype(int)
            Dn = e["D"]
            nmax = int(max(1, round(e["search_mesh_size"] / e["mesh_size"])))
            det = int(round(np.linalg.det(Bi[:Dn].astype(float)))) if Dn <= 6 else 1
            ev("PollDirs", dirs=[[int(v) for v in row] for row in Bi], quant=quant,
               nmax=min(nmax, 2 ** 30), det=max(min(det, 2 ** 30), -(2 ** 30)), nrows=int(Bi.shape[0]))
        elif t == "PollEnd":
            st = cur_step
            cur_step = None
            # pair each poll evaluation with the first Improve after it
            imps = st["improves"]
            evs = st["evals"]
            paired = []
            j = 0
            stall_ev = None
            seqs = [x[0]["seq"] for x in evs]
            for n_e, (raw, p) in enumerate(evs):
                nxt = seqs[n_e + 1] if n_e + 1 < len(evs) else 10 ** 12
                cand = [im for im in imps if raw["seq"] < im["seq"] < nxt]
                if cand:
                    paired.append(cand[0])
                    if n_e + 1 == len(evs) and len(cand) > 1:
                        stall_ev = cand[-1]
            if not evs and imps:
                stall_ev = imps[-1]
            thr = threshold(st["begin"]["k"])
            zs = [float(np.asarray(_improve_z(im)).ravel()[0]) for im in paired if _improve_z(im) is not None]
            good = bool(zs and max(zs) > thr)
            moved = bool(zs and ((max(zs) > 0 and sloppy) or max(zs) > thr))
            if stobads:
                # the verdict on the LAST polled point classifies the poll; the incumbent moves to the best polled
                # point (if any improves on the incumbent's estimate) on success or, opportunistically, unless the
                # verdict is a certain failure
                stos = [x for x in st.get("stos", []) if evs and x["seq"] > evs[-1][0]["seq"]]
                sv = _sto_verdict(stos[0], pmm) if stos else (0 if not evs else None)
                good = bool(sv == 1)
                moved = bool(sv is not None and (good or (opp and sv > -1)) and zs and max(zs) > 0)
            stalled = False
            if stall_ev is not None:
                zz = _improve_z(stall_ev)
                stalled = bool(zz is not None and np.all(np.asarray(zz) < tol_fun))
            best_uid = -1
            best_yR = -1
            if zs:
                jbest = int(np.argmax(zs))
                # first maximal (the code keeps the first strictly better one)
                best_uid = evs[jbest][1]["uid"] if len(paired) == len(evs) else -1
                best_yR = evs[jbest][1]["yR"] if len(paired) == len(evs) else -1
            # noisy modes: the value compared for each polled point is the GP estimate at that point
            # (the mean of the last single-point prediction at u made between the evaluation and the comparison)
            judged_on_gp = True
            if st["begin"]["uhl"] > 0 and len(paired) == len(evs):
                preds = st.get("predicts", [])
                for (raw, p_), im in zip(evs, paired):
                    cand = [q for q in preds if raw["seq"] < q["seq"] < im["seq"] and np.array_equal(q["u"], raw["u"])]
                    try:
                        fn = float(np.asarray(im["f_new"]).ravel()[0])
                    except Exception:
                        fn = None
                    if not cand or fn is None or fn != cand[-1]["mu"]:
                        judged_on_gp = False
            ev("PollEnd", kb=st["begin"]["k"], k=e["k"], ks=e["ks"], fc=e["fc"], npolled=len(evs), ongp=bool(judged_on_gp),
               good=good, moved=moved, stalled=stalled, hasstall=stall_ev is not None,
               paired=len(paired) == len(evs), iter=e["iter"], incuid=uid_of(e["ubest"]),
               incyR=RY(e["yval"]), bestuid=best_uid, bestyR=best_yR,
               ovf=int(e.get("mesh_overflows", 0)), ovfb=int(st["begin"].get("mesh_overflows", 0)))
        elif t == "HistWrite":
            it = e["iteration"]
            if e["site"] in ("reeval",):
                continue
            hist_buf.setdefault(it, {})[e["key"]] = e["value"]
            if e["key"] == "func_count" and e["site"] != "final":
                h = hist_buf.pop(it)
                xx = h.get("x")
                yv = h.get("yval")
                ms = h.get("mesh_size")
                sms = h.get("search_mesh_size")
                km = _log2int(float(np.asarray(ms).ravel()[0])) if ms is not None else None
                ksm = _log2int(float(np.asarray(sms).ravel()[0])) if sms is not None else None
                fv = h.get("fval")
                ev("HistRecord", iter=it, pid=pid_of(xx) if xx is not None else -1,
                   uid=uid_of(h["u"]) if h.get("u") is not None else -1,
                   yR=RY(float(np.asarray(yv).ravel()[0])) if yv is not None else -1,
                   fc=_i(np.asarray(e["value"]).ravel()[0]),
                   kmesh=km if km is not None else 999, ksmesh=ksm if ksm is not None else 999,
                   fvaleqyval=bool(fv is not None and yv is not None and
                                   float(np.asarray(fv).ravel()[0]) == float(np.asarray(yv).ravel()[0])),
                   fsdzero=bool(h.get("fsd") is not None and float(np.asarray(h["fsd"]).ravel()[0]) == 0.0))
        elif t == "LoopEnd":
            # stall test improvement: first scalar top-level Improve of this iteration
            stall = False
            stallseen = False
            for (ix, im) in pending_improve:
                zz = _improve_z(im)
                if zz is not None and np.asarray(zz).size == 1:
                    stall = bool(float(np.asarray(zz).ravel()[0]) < tol_fun)
                    stallseen = True
                    break
            pending_improve = []
            ev("LoopEnd", loopiter=e["loop_iter"], iter=e["iter"], dosearch=e["do_search"],
               dopoll=e["do_poll"], sc=_i(e["sc"]), ss=e["ss"], spree=e["spree"], k=e["k"], ks=e["ks"],
               fc=e["fc"], finished=e["finished"], msg=MSG.get(e["msg"], "other"),
               budgeteff=_i(e["budget_eff"]), stall=stall, stallseen=stallseen,
               nlogged=e["nlogged"], incuid=uid_of(e["ubest"]), incyR=RY(e["yval"]),
               uequbest=bool(np.array_equal(e["u"], e["ubest"])))
        elif t == "GPTrainSet":
            ev("GPTrainSet", site=e["site"], ntrain=e["ntrain"], nunlogged=e["n_unlogged"],
               nvalmis=e["n_valmis"], s2ok=e["s2_ok"], s2lenok=e["s2_len_ok"],
               allused=bool(e.get("all_logged_used", True)), refit=bool(e.get("refit", False)),
               centre=e.get("centre", "na"), trainisnbr=bool(e.get("train_is_nbr", True)))
        elif t == "Neighbors":
            ev("Neighbors", site=e["site"], ntrain=e["ntrain"], want=e["want"], sortedok=e["sorted_ok"],
               nnearer=e["n_nearer_excluded"], nunmatched=e["n_unmatched"], ndup=e["n_dup_rows"])
        elif t == "GPAdd":
            ev("GPAdd", site=e["site"], grew=e["grew"], lastisnew=e["last_is_new"], logged=e["logged"],
               valmis=e["valmis"], isnewest=e["is_newest"], s2ok=e["s2_ok"], merged=bool(e.get("merged", False)))
        elif t == "Acq":
            ev("Acq", site=e["site"], n=e["n"], fcarg=e["fc_arg"], fctrue=e["fc_true"],
               lcbok=e["lcb_ok"], defbeta=e["default_beta"])
        elif t == "ESReturn":
            ev("ESReturn", outcome=e["outcome"], ngen=e["n_generated"], noutside=e["n_outside"],
               retismin=bool(e.get("ret_is_min", True)), retingen=bool(e.get("ret_in_generated", True)))
        elif t == "HedgeCall":
            ev("HedgeCall", outcome=e["outcome"], nfuns=e["n_funs"], sumok=e["prob_sum_ok"],
               minok=e["prob_min_ok"], finite=e["prob_finite"], chosen=e["chosen"])
        elif t == "FitAttempt":
            ev("FitAttempt", idx=e["idx"], ctx=e["ctx"], lenX=e["lenX"], lenY=e["lenY"],
               lenS2=e["lenS2"], injected=e["injected"], outcome=e["outcome"],
               rfit=e.get("rfit", -1), rtry=e.get("rtry", -1))
        elif t == "UpdateIncumbent":
            pass
        elif t == "Result":
            ev("Result", **_project_result(e, sc, rb, cons_ev, mode, D, lb, ub, pid_of, xR, RY, RS, consf, events))
        elif t == "Crash":
            fr = e.get("frame") or ""
            ev("Crash", type=e["type"], frame=fr, injected=bool(e["type"] in ("InjectedTargetError", "InjectedTargetError2", "InjectedStopIteration", "InjectedLinAlgError", "InjectedTypeError")),
               ncalls=e["ncalls"], fc=e["fc"],
               loggedfinite=_logged_finite(e.get("final")),
               nlog=int(e["final"]["Xn"] + 1) if e.get("final") else -1)
    # the loop_end hook must have fired in every run that reached the main loop
    if any(e["ev"] == "Reserve" for e in events) and any(e["ev"] == "Result" for e in events) \
            and not any(e["ev"] == "LoopEnd" for e in events) \
            and not any(e["ev"] == "Result" and "output_fcn" in e["message"] for e in events):
        from .common import MachineryError
        raise MachineryError("no LoopEnd events: the loop_end hook did not fire (PYBADS_VERIF guard off?)")
    # final log consistency guards (C01 internal box / maps back, C12 run level)
    if final is not None:
        ev("FinalLog", **_final_guards(final, lb, ub, lbI, ubI, events, mode))
    ev("RunEnd")
    return out, info


def _sf2(v):
    """2*log2(search_factor) as an integer (factor steps are sqrt(2), 2, sqrt(1/2)); 9999 if not on that lattice"""
    try:
        t = 2.0 * math.log2(float(v))
    except Exception:
        return 9999
    r = round(t)
    return int(r) if abs(t - r) < 1e-6 else 9999


def _i(v):
    v = float(v)
    if math.isinf(v):
        return 2 ** 30 if v > 0 else -(2 ** 30)
    return int(v)


def _empty_cfg(D):
    return dict(budget=0, maxiter=0, ktol=0, ntry=0, nfinal=0, accel=False, accelsteps=0,
                completepoll=False, skippoll=False, locked=False, gnum=0, gmult=0, kcap=0,
                expand=0, incr=0, stalliters=0, k0=0, pow2=True, funevalstart=0, minrefit=0, sloppy=True,
                removeafter=1, sfdefault=True)


def _logged_finite(final):
    if not final:
        return True
    return bool(np.all(np.isfinite(final["Y"])) and np.all(np.isfinite(final["Y_orig"])))


def _project_result(e, sc, rb, cons_ev, mode, D, lb, ub, pid_of, xR, RY, RS, consf, events):
    x = np.asarray(e["x"]).ravel()
    pid = pid_of(x)
    inbox = bool(np.all(x >= lb) and np.all(x <= ub))
    km = _log2int(e["mesh_size"])
    fin = e["final"]
    # calls (successful) in order
    calls = []
    for ev_ in events:
        if ev_["ev"] == "Eval" and ev_["outcome"] == "ok" and ev_["tcalls"]:
            calls.append(ev_["tcalls"][0])
    yv = e["yval_vec"]
    ysd = e["ysd_vec"]
    nvec = 0 if yv is None else int(np.asarray(yv).size)
    yvR = [] if yv is None else [RY(v) for v in np.asarray(yv).ravel()]
    ysR = [] if ysd is None else [RS(v) for v in np.asarray(ysd).ravel()]
    fval_is_mean = True
    fsd_is_sem = True
    if yv is not None and nvec > 0:
        arr = np.asarray(yv, dtype=float).ravel()
        fval_is_mean = bool(np.isclose(e["fval"], np.mean(arr), rtol=1e-12, atol=1e-12))
        fsd_is_sem = bool(np.isclose(e["fsd"], np.std(arr) / np.sqrt(arr.size), rtol=1e-9, atol=1e-12))
    # fval bit-equal to an observation at x (deterministic)
    fval_obs = any((_k(c["x"]) == _k(x)) and c.get("y") == e["fval"] for c in calls)
    x0_given = rb["x0"]
    x0m = True
    if x0_given is not None:
        x0m = bool(np.array_equal(np.asarray(e["x0"]).ravel(), np.asarray(cons_ev["x0"]).ravel()))
    seedm = e["random_seed"] == sc.get("options", {}).get("random_seed", sc.get("seed", 0))
    want_keys = ["algorithm", "fsd", "fun", "func_count", "fval", "iterations", "mesh_size",
                 "message", "non_box_cons", "overhead", "problem_type", "random_seed",
                 "success", "target_type", "total_time", "version", "x", "x0", "ysd_vec", "yval_vec"]
    unb = bool(np.all(np.isinf(lb)) and np.all(np.isinf(ub)))
    want_ptype = ("non-box constraints" if consf is not None else
                  ("unconstrained" if unb else "bound constraints"))
    return dict(pid=pid, xR=xR(x), inbox=inbox, fvalR=RY(e["fval"]), fvalobs=bool(fval_obs),
                fsdzero=bool(e["fsd"] == 0.0), ttype=e["target_type"], ptypeok=bool(e["problem_type"] == want_ptype),
                fc=e["func_count"], ncalls=e["ncalls"], iterations=e["iterations"],
                kmesh=km if km is not None else 999, kfinal=fin["k"],
                msg=MSG.get(e["message"], "other"), nvec=nvec, yvR=yvR, ysR=ysR,
                hasysd=ysd is not None, fvalmean=fval_is_mean, fsdsem=fsd_is_sem,
                x0ok=x0m, seedok=bool(seedm), keysok=bool(sorted(e["keys"]) == sorted(want_keys)),
                attrok=bool(e["attr_ok"]),
                viol=bool(consf is not None and np.any(np.array(consf(x.reshape(1, -1))).astype(float) > 0)),
                flfc=fin["func_count"])


def _k(a):
    return (np.array(a, dtype=float).ravel() + 0.0).tobytes()


def _final_guards(final, lb, ub, lbI, ubI, events, mode):
    X = final["X"]
    XO = final["X_orig"]
    n = X.shape[0]
    in_int = bool(np.all(X >= lbI) and np.all(X <= ubI)) if n else True
    in_orig = bool(np.all(XO >= lb) and np.all(XO <= ub)) if n else True
    # every logged original point is exactly what the target was called with
    # for the evaluation that created the record, and logged internal = u
    recs = [e for e in events if e["ev"] == "Eval" and e["outcome"] == "ok" and e["rec"]]
    created = []
    seen_xn = -1
    for e in recs:
        if e["Xn_after"] > seen_xn:
            created.append(e)
            seen_xn = e["Xn_after"]
    maps = True
    order = True
    if len(created) != n:
        order = False
    else:
        for j, e in enumerate(created):
            if not np.array_equal(e["u"] + 0.0, X[j] + 0.0):
                order = False
            if not e["tcalls"] or not np.array_equal(e["tcalls"][0]["x"] + 0.0, XO[j] + 0.0):
                maps = False
    vals = True
    if mode != "specified" and len(created) == n:
        for j, e in enumerate(created):
            if e["tcalls"] and e["tcalls"][0].get("y") is not None:
                if final["Y"][j] != e["tcalls"][0]["y"] or final["Y_orig"][j] != e["tcalls"][0]["y"]:
                    vals = False
    nev_arr = np.asarray(final["n_evals"], dtype=float)
    # total verdicts: a corrupted counter table (NaN / inf) is a value the clause rejects, not a crash of the projection
    nev_total = int(np.sum(nev_arr)) if np.all(np.isfinite(nev_arr)) else -1
    nok = sum(1 for e in events if e["ev"] == "Eval" and e["outcome"] == "ok")
    return dict(n=int(n), inint=in_int, inorig=in_orig, mapsback=bool(maps), order=bool(order),
                vals=bool(vals), nevsum=nev_total, nok=int(nok), fc=int(final["func_count"]))
