"""C17 component check: specs/CandFilter.tla enumerates every input of the
small lattice instance; each is replayed into the real contraints_check with a
real FunctionLogger holding the evaluated set, and the property's
postconditions are evaluated on the real output."""
import os
import shutil

import numpy as np

from .common import MachineryError
from .tlaval import parse_dump
from .tlc import run_tlc


class _IdT:
    """identity transformer stand-in (internal = original coordinates)"""
    def inverse_transf(self, U):
        return np.asarray(U, dtype=float)


def _pt(p, D):
    if isinstance(p, dict):
        return tuple(p[i] for i in range(1, D + 1))
    return tuple(p)


_G = {}


class _Col:
    def __init__(self):
        self.v = []
        self.coverage = {}

    def violation(self, clause, site=None, where=None, detail=None):
        if len(self.v) < 40:
            self.v.append((clause, site, where, detail))


def _chunk(jobs):
    from pybads.function_logger import FunctionLogger, contraints_check
    verdict = _Col()
    tier = _G.get("tier", "quick")
    scalings = [(1.0, 1.0), (2.0 ** -10, 2.0 ** -20)]
    total_cases = 0
    n_eq_ideal = 0
    samples = []
    for (D, st, si) in jobs:
        lb = np.zeros((1, D))
        ub = np.ones((1, D))
        if True:
            cands = [_pt(p, D) for p in st["cands"]]
            ev = sorted(_pt(p, D) for p in st["evaluated"])
            inf = set(_pt(p, D) for p in st["infeasible"])
            proj = bool(st["proj"])
            ideal = set(_pt(p, D) for p in st["ideal"])
            # third flavour: an order-preserving value map that puts the outside lattice points a few 1e-7
            # beyond the (non-zero) bounds -- "just outside" must still be dropped / projected exactly
            flavours = [("lin", h_, tol_, None) for (h_, tol_) in (scalings if tier == "thorough" or si % 7 == 0 else scalings[:1])]
            if tier == "thorough" or si % 5 == 0:
                flavours.append(("near", 1.0, 2.0 ** -30, {-1: -0.8 - 3e-7, 0: -0.8, 1: 1.3, 2: 1.3 + 2e-7}))
            for (fname, h, tol, vmap) in flavours:
                total_cases += 1
                if vmap is None:
                    fv = lambda c, h=h: float(c) * h
                    fi = lambda v, h=h: int(round(v / h))
                else:
                    fv = lambda c, vmap=vmap: vmap[c]
                    fi = lambda v, vmap=vmap: min(vmap, key=lambda k: abs(vmap[k] - v))
                lbv = np.full((1, D), fv(0))
                ubv = np.full((1, D), fv(1))
                fl = FunctionLogger(lambda x: 0.0, D, False, 0, cache_size=8)
                fl.variable_transformer = _IdT()
                for j, p in enumerate(ev):
                    fl.X[j] = np.array([fv(c) for c in p], dtype=float)
                fl.X_max_idx = len(ev) - 1
                fl.Xn = len(ev) - 1
                U = np.array([[fv(c) for c in p] for p in cands], dtype=float).reshape(len(cands), D)

                def cons(X, inf=inf, fi=fi):
                    X = np.atleast_2d(X)
                    return np.array([tuple(fi(v) for v in row) in inf for row in X], dtype=bool)
                where = f"D={D} cands={cands} evaluated={ev} infeasible={sorted(inf)} proj={proj} h={h} map={fname}"
                try:
                    out = contraints_check(U.copy(), lbv, ubv, tol, fl, proj, cons)
                except Exception as e:
                    if len(cands) == 0:
                        # an empty candidate array is outside the filter's contract in the code base
                        # (every caller passes at least one row); recorded, not a C17 clause
                        verdict.coverage["candfilter_empty_input_raises"] = repr(e)[:80]
                        continue
                    verdict.violation("C17.filter_crash", site="Filter:component", where=where,
                                      detail={"error": repr(e)[:200]})
                    continue
                out = np.atleast_2d(np.asarray(out, dtype=float))
                rows = [tuple(fi(v) for v in row) for row in out] if out.size else []
                exact = [tuple(row) for row in out] if out.size else []
                oset = set(rows)
                moved = set((tuple(min(max(c, 0), 1) for c in p) if proj else p) for p in cands
                            if proj or all(0 <= c <= 1 for c in p))
                if any(abs(a - fv(b)) > 1e-12 * max(1.0, abs(a)) for ex, ro in zip(exact, rows) for a, b in zip(ex, ro)):
                    verdict.violation("C17.out_from_input", site="Filter:component", where=where,
                                      detail={"out": out.tolist()})
                if any(not all(0 <= c <= 1 for c in p) for p in oset):
                    verdict.violation("C17.out_in_box", site="Filter:component", where=where, detail={"out": rows})
                if oset & inf:
                    verdict.violation("C17.out_feasible", site="Filter:component", where=where, detail={"out": rows})
                if len(rows) != len(oset):
                    verdict.violation("C17.out_distinct", site="Filter:component", where=where, detail={"out": rows})
                if oset & set(ev):
                    verdict.violation("C17.out_not_already_evaluated", site="Filter:component", where=where,
                                      detail={"out": rows})
                if not oset <= moved:
                    verdict.violation("C17.out_from_input", site="Filter:component", where=where, detail={"out": rows})
                if oset == ideal:
                    n_eq_ideal += 1
                if len(samples) < 3 and len(cands) >= 2 and ev and inf:
                    samples.append({"cands": cands, "evaluated": ev, "infeasible": sorted(inf), "proj": proj,
                                    "ideal": sorted(ideal), "real_output": rows})
    return verdict.v, total_cases, n_eq_ideal, samples, verdict.coverage.get("candfilter_empty_input_raises")


def run(verdict, tier):
    from pybads.function_logger import FunctionLogger, contraints_check
    combos = [(1, 3), (2, 2)]
    if tier == "thorough":
        combos = [(1, 4), (2, 2)]
    total_states = 0
    total_cases = 0
    n_eq_ideal = 0
    samples = []
    scalings = [(1.0, 1.0), (2.0 ** -10, 2.0 ** -20)]   # (lattice spacing, tol_mesh)
    for (D, mc) in combos:
        cfg = ("SPECIFICATION Spec\nCONSTANTS\n  Dim = %d\n  MaxCand = %d\n"
               "INVARIANT IdealSatisfies\nINVARIANT IdealMaximal\n" % (D, mc))
        r = run_tlc("CandFilter", cfg=cfg, timeout=1200, dump="out", keep=True)
        if not r.ok:
            if r.violated:
                verdict.violation("C17.design_model:" + ",".join(r.violated), site="CandFilter.tla",
                                  where=f"D={D}")
                shutil.rmtree(r.workdir, ignore_errors=True)
                continue
            raise MachineryError("CandFilter TLC failed: %s\n%s" % (r.summary(), r.output[-1500:]))
        states = parse_dump(os.path.join(r.workdir, "out.dump"))
        shutil.rmtree(r.workdir, ignore_errors=True)
        total_states += r.distinct_states
        lb = np.zeros((1, D))
        ub = np.ones((1, D))
        jobs = [(D, st, si) for si, st in enumerate(states)]
        _G["tier"] = tier
        import multiprocessing as mp
        ctx = mp.get_context("fork")
        n = os.cpu_count() or 4
        size = max(1, len(jobs) // (n * 8))
        chunks = [jobs[i:i + size] for i in range(0, len(jobs), size)]
        with ctx.Pool(n) as pool:
            for vs, nc, neq, smp, emp in pool.imap_unordered(_chunk, chunks):
                total_cases += nc
                n_eq_ideal += neq
                for (clause, site, where, detail) in vs:
                    verdict.violation(clause, site=site, where=where, detail=detail)
                for x in smp:
                    if len(samples) < 3:
                        samples.append(x)
                if emp:
                    verdict.coverage["candfilter_empty_input_raises"] = emp
    verdict.coverage.update({
        "candfilter_states": total_states, "candfilter_cases_replayed": total_cases,
        "candfilter_outputs_equal_to_ideal": n_eq_ideal, "candfilter_samples": samples,
        "candfilter_instances": [list(c) for c in combos],
    })
    return total_states, total_cases
