"""python -m bv.triage <clause-prefix> [tier]: list where clauses fire (uses cached panels)."""
import sys, json
from . import panels
from .runpanel import run_panel

def main():
    pref = sys.argv[1]
    tier = sys.argv[2] if len(sys.argv) > 2 else "quick"
    names = sys.argv[3].split(",") if len(sys.argv) > 3 else list(panels.PANELS)
    for name in names:
        scs = panels.PANELS[name](tier)
        res = run_panel(scs, name=f"{name}-{tier}")
        for i, sc in enumerate(scs):
            for (c, li) in res["verdicts"][i]:
                if c.startswith(pref):
                    ev = res["events"][i][li]
                    print(f"{name}/{sc['id']} tags={sc['tags']} noise={sc['noise'].get('mode')} D={sc['D']} {c} @{li}: {json.dumps(ev)[:600]}")
                    s = res["summaries"][i]
                    if "crash" in s:
                        print("     crash:", s["crash"], s.get("frame"), s.get("crash_msg"))
main()
