"""C19 container check: specs/IterHist.tla behaviours replayed into the real
IterationHistory with mutable NumPy values; copy / key / attribute contract of
OptimizeResult exercised on a real finished run."""
import os
import shutil

import numpy as np

from .common import MachineryError
from .tlaval import parse_dump
from .tlc import run_tlc


def _replay(hist, by_hist, verdict, counters):
    from pybads.utils.iteration_history import IterationHistory
    ih = IterationHistory(["x", "fval"])
    objs = {"o1": np.zeros(2), "o2": np.zeros(2)}
    for n, op in enumerate(hist):
        where = f"hist={hist[:n + 1]}"
        raised = False
        if op[0] == "record":
            _, k, o, i = op
            try:
                ih.record(k, objs[o], i)
            except ValueError:
                raised = True
            except Exception as e:
                verdict.violation("C19.container_error_type", site="IterationHistory.record", where=where,
                                  detail={"error": repr(e)[:100]})
                return
        else:
            objs[op[1]] += 1.0          # in-place mutation of the caller's array
        st = by_hist.get(tuple(hist[:n + 1]))
        if st is None:
            continue
        counters["compared"] += 1
        if raised != st["err"]:
            verdict.violation("C19.container_rejects_bad_key_or_iteration", site="IterationHistory.record",
                              where=where, detail={"raised": raised, "spec_err": st["err"]})
        for k in ("x", "fval"):
            want = st["store"][k]
            got = ih[k]
            gl = [] if got is None else [(-1 if v is None else int(np.asarray(v).ravel()[0])) for v in got]
            if gl != list(want):
                verdict.violation("C19.container_stores_copies", site="IterationHistory.record", where=where,
                                  detail={"key": k, "got": gl, "spec": list(want)})
                return


def _result_contract(verdict):
    """OptimizeResult: fixed keys, key/attribute agreement, unknown key rejected, copies"""
    import logging
    logging.disable(logging.CRITICAL)
    from pybads.bads.bads import BADS
    b = BADS(lambda x: float(np.sum(np.asarray(x) ** 2)), np.array([[1.0, 1.0]]), np.full((1, 2), -5.0),
             np.full((1, 2), 5.0), np.full((1, 2), -2.0), np.full((1, 2), 2.0),
             options={"display": "off", "random_seed": 3, "max_fun_evals": 25})
    res = b.optimize()
    keys = sorted(dict.keys(res))
    for k in keys:
        a, v = getattr(res, k), res[k]
        if a is not v:
            verdict.violation("C19.result_keys", site="OptimizeResult", where=f"key={k}", detail={"attr_is_item": False})
    try:
        res["not_a_field"] = 1
        verdict.violation("C19.result_keys", site="OptimizeResult", where="unknown key accepted", detail={})
    except ValueError:
        pass
    except Exception as e:
        verdict.violation("C19.result_keys", site="OptimizeResult", where="unknown key", detail={"error": repr(e)[:80]})
    try:
        res.not_a_field
        verdict.violation("C19.result_keys", site="OptimizeResult", where="unknown attribute readable", detail={})
    except AttributeError:
        pass
    # copies: later use of the optimiser object must not change the result
    before = {k: (np.array(res[k], copy=True) if isinstance(res[k], np.ndarray) else res[k]) for k in ("x", "x0", "fval", "func_count", "mesh_size")}
    b.x += 1.0
    b.x0 += 1.0
    b.u += 1.0
    b.function_logger.func_count += 5
    b.mesh_size = 123.0
    for k, v in before.items():
        same = np.array_equal(res[k], v) if isinstance(v, np.ndarray) else res[k] == v
        if not same:
            verdict.violation("C19.result_holds_copies", site="OptimizeResult", where=f"key={k}", detail={})
    # history arrays are copies as well
    hx = np.array(b.iteration_history["x"][0], copy=True)
    b.u *= 0.0
    if not np.array_equal(b.iteration_history["x"][0], hx):
        verdict.violation("C19.container_stores_copies", site="BADS.iteration_history", where="x[0]", detail={})


def run(verdict, tier):
    cfg = open(os.path.join(os.path.dirname(os.path.dirname(__file__)), "specs", "IterHistMC.cfg")).read()
    if tier == "thorough":
        cfg = cfg.replace("MaxOps = 3", "MaxOps = 4")
    r = run_tlc("IterHistMC", cfg=cfg, timeout=900, dump="out", keep=True)
    if not r.ok:
        if r.violated:
            verdict.violation("C19.design_model:" + ",".join(r.violated), site="IterHist.tla", where="MC")
            shutil.rmtree(r.workdir, ignore_errors=True)
            return 0, 0
        raise MachineryError("IterHist TLC failed: %s\n%s" % (r.summary(), r.output[-1200:]))
    states = parse_dump(os.path.join(r.workdir, "out.dump"))
    shutil.rmtree(r.workdir, ignore_errors=True)

    def norm(h):
        return tuple(tuple(op) for op in h)
    by_hist = {norm(st["hist"]): st for st in states}
    depth = max(len(h) for h in by_hist)
    leaves = [h for h in by_hist if len(h) == depth]
    counters = {"compared": 0}
    for li, h in enumerate(leaves):
        if tier == "quick" and li % 2:
            continue
        _replay(h, by_hist, verdict, counters)
    _result_contract(verdict)
    verdict.coverage.update({"iterhist_states": r.distinct_states, "iterhist_histories": len(leaves),
                             "iterhist_state_comparisons": counters["compared"]})
    return r.distinct_states, counters["compared"]
