"""C14 component check: specs/PollDirs.tla (TLC enumerates every outcome of the
generator's random choices and checks the invariants) bound to the real
poll_mads_2n by replaying every enumerated choice tuple through a scripted
random source."""
import os
import shutil
import sys

import numpy as np

from .tlaval import parse_dump
from .tlc import run_tlc
from .common import MachineryError


class ScriptedRnd:
    """stands in for `numpy.random` inside poll_mads_2n"""

    def __init__(self, low, sgn, perm, d, n):
        self.low, self.sgn, self.perm, self.d, self.n = low, sgn, perm, d, n
        self.calls = []

    def randint(self, lo, hi=None, size=None, **kw):
        self.calls.append(("randint", lo, hi, size))
        if isinstance(size, tuple) and len(size) == 2:
            A = np.ones(size, dtype=int)
            for (i, j), v in self.low.items():
                A[i - 1, j - 1] = v + self.n
            # contract of randint(1, 2n): values in 1..2n-1
            assert lo == 1 and int(round(float(hi))) == 2 * self.n, (lo, hi)
            return A
        # signs: 1 -> -n, 2 -> +n
        assert lo == 1 and hi == 3, (lo, hi)
        return np.array([1 if s < 0 else 2 for s in self.sgn], dtype=int)

    def permutation(self, M):
        self.calls.append(("permutation",))
        M = np.asarray(M)
        return M[[p - 1 for p in self.perm]]


def prop_invariants(B, d, n):
    """the property's own clauses evaluated directly on an integer matrix [M;-M]"""
    bad = []
    Bi = np.round(B).astype(int)
    if not np.allclose(B, Bi, atol=1e-9):
        bad.append("C14.dirs_integer")
    if Bi.shape != (2 * d, d):
        bad.append("C14.dirs_symmetric")
        return bad
    M = Bi[:d]
    if not np.array_equal(Bi[d:], -M):
        bad.append("C14.dirs_symmetric")
    if abs(round(np.linalg.det(M.astype(float)))) < 1:
        bad.append("C14.dirs_nonsingular")
    if np.max(np.abs(M)) > n:
        bad.append("C14.dirs_bounded")
    if n == 1:
        rows = {tuple(r) for r in Bi}
        ok = all(np.sum(r != 0) == 1 and set(np.abs(r)) <= {0, 1} for r in Bi) and len(rows) == 2 * d
        if not ok:
            bad.append("C14.dirs_signed_permutation")
    return bad


def run(verdict, tier):
    mod = sys.modules.get("pybads.poll.poll_mads_2n")
    if mod is None:
        import importlib
        importlib.import_module("pybads.poll")
        mod = sys.modules["pybads.poll.poll_mads_2n"]
    fn = mod.poll_mads_2n
    combos = [(1, 1), (1, 2), (1, 4), (2, 1), (2, 2), (2, 4), (3, 1), (3, 2)]
    if tier == "thorough":
        combos.append((3, 4))
    else:
        combos.append((3, 4))     # 16 464 outcomes: still cheap
    total_states = 0
    total_cases = 0
    mismatches = 0
    script_breaks = 0
    samples = []
    for (d, n) in combos:
        cfg = ("SPECIFICATION Spec\nCONSTANTS\n  Dim = %d\n  N = %d\n" % (d, n) +
               "".join("INVARIANT %s\n" % i for i in
                       ("NonSingular", "DetIsNPowD", "EntriesBounded", "Symmetric", "AllDistinct", "SignedPermutation")))
        r = run_tlc("PollDirs", cfg=cfg, timeout=600, dump="out", keep=True)
        if not r.ok:
            if r.violated:
                verdict.violation("C14.design_model:" + ",".join(r.violated), site="PollDirs.tla",
                                  where=f"D={d},n={n}")
                shutil.rmtree(r.workdir, ignore_errors=True)
                continue
            raise MachineryError("PollDirs TLC run failed: %s\n%s" % (r.summary(), r.output[-1500:]))
        states = parse_dump(os.path.join(r.workdir, "out.dump"))
        shutil.rmtree(r.workdir, ignore_errors=True)
        total_states += r.distinct_states
        scales = [np.ones(d), np.array([0.5, 2.0, 3.0][:d])]
        if tier == "thorough":
            scales.append(np.array([1e-3, 7.0, 0.125][:d]))
        for st in states:
            low = st["low"] if isinstance(st["low"], dict) else {}
            sgn, perm, dirs = st["sgn"], st["perm"], np.array(st["dirs"], dtype=float)
            for ps in scales:
                total_cases += 1
                scr = ScriptedRnd(low, sgn, perm, d, n)
                saved = mod.rnd
                mod.rnd = scr
                try:
                    B = fn(d, ps.copy(), float(n), 1.0)
                    Bs = np.asarray(B, dtype=float) * ps
                    broke = False
                except AssertionError:
                    broke = True
                except Exception as e:
                    verdict.violation("C14.generator_crash", site="poll_mads_2n",
                                      where=f"D={d},n={n},low={low},sgn={sgn},perm={perm}",
                                      detail={"error": repr(e)})
                    continue
                finally:
                    mod.rnd = saved
                if broke:
                    script_breaks += 1
                    continue
                if Bs.shape == dirs.shape and np.allclose(Bs, dirs, atol=1e-9):
                    if len(samples) < 3:
                        samples.append({"D": d, "n": n, "low": {str(k): v for k, v in low.items()},
                                        "sgn": list(sgn), "perm": list(perm), "dirs": st["dirs"]})
                    continue
                mismatches += 1
                for clause in prop_invariants(Bs, d, n):
                    verdict.violation(clause, site="poll_mads_2n",
                                      where=f"D={d},n={n},low={low},sgn={sgn},perm={perm},scale={ps.tolist()}",
                                      detail={"got": Bs.tolist(), "spec": dirs.tolist()})
    # if the scripted source no longer fits the code's way of drawing, or the
    # outputs drifted from the spec, fall back to direct evaluation on seeded draws
    n_random = 0
    if script_breaks or mismatches:
        rs = np.random.RandomState(12345)
        saved = mod.rnd
        mod.rnd = rs
        try:
            for (d, n) in combos:
                for _ in range(3000):
                    B = fn(d, np.ones(d), float(n), 1.0)
                    n_random += 1
                    for clause in prop_invariants(np.asarray(B, dtype=float), d, n):
                        verdict.violation(clause, site="poll_mads_2n", where=f"D={d},n={n},random draw",
                                          detail={"got": np.asarray(B).tolist()})
        finally:
            mod.rnd = saved
    verdict.coverage.update({
        "polldirs_states": total_states, "polldirs_cases_replayed": total_cases,
        "polldirs_mismatches_vs_spec": mismatches, "polldirs_script_breaks": script_breaks,
        "polldirs_random_fallback_draws": n_random,
        "polldirs_samples": samples,
        "polldirs_combos": [list(c) for c in combos],
    })
    return total_states, total_cases
