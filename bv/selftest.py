"""./check --selftest : demonstrates the binding between specs and code.

 1. observers are transparent: an observed run returns bit-identical results
    (x, fval, func_count, message, full call sequence) to an unobserved one;
 2. a faithful trace is accepted; corrupting one recorded field, dropping one
    event, or moving a point outside the box makes TLC reject it with the
    expected clause;
 3. with the hook guard off no LoopEnd event exists and the run is reported as
    a machinery failure (never as a pass)."""
import copy
import json
import os
import sys

import numpy as np

from . import scenarios as S
from .common import CACHE, MachineryError
from .tlc import run_tlc
from .runpanel import TRACE_CFG, _json_default


def _validate(events_list, name):
    wdir = os.path.join(CACHE, "selftest")
    os.makedirs(wdir, exist_ok=True)
    tpath = os.path.join(wdir, name + ".ndjson")
    opath = os.path.join(wdir, name + ".out.json")
    if os.path.exists(opath):
        os.remove(opath)
    with open(tpath, "w") as fh:
        for evs in events_list:
            for e in evs:
                fh.write(json.dumps(e, default=_json_default, separators=(",", ":")) + "\n")
    r = run_tlc("BadsRunTrace", cfg=TRACE_CFG, workers=1, timeout=300,
                env={"TRACE_FILE": tpath, "OUT_FILE": opath}, deadlock=False)
    if not r.ok or not os.path.exists(opath):
        return None, r
    return json.load(open(opath)), r


def main():
    from .recorder import run_scenario
    from .projection import project
    ok = True
    sc = {"id": "self", "D": 2, "geom": S.box_geom(2, -5, 5, -3, 3, x0=[1.0, -1.0]),
          "target": {"family": "quad", "min": [7.5, -8.0], "eig": [1.0, 5.0], "rot_seed": 2},
          "noise": {"mode": "det"}, "cons": None, "options": {"max_fun_evals": 60}, "seed": 5, "tags": []}
    # ---- 1. transparency ------------------------------------------------------
    raw = run_scenario(sc)
    from pybads.bads.bads import BADS
    f0 = S.make_target(sc["target"], 2)
    calls = []

    def f(x):
        calls.append(np.asarray(x, float).tobytes())
        return f0(x)
    g = S.geom_arrays(sc)
    np.random.seed(12345)
    b = BADS(f, g["x0"], g["lb"], g["ub"], g["plb"], g["pub"], options=S.build_options(sc))
    r = b.optimize()
    res = [e for e in raw if e["ev"] == "Result"][0]
    obs_calls = [e["tcalls"][0]["x"].tobytes() for e in raw if e["ev"] == "Eval" and e["tcalls"]]
    same = (np.array_equal(res["x"], r.x) and res["fval"] == r.fval and res["func_count"] == r.func_count
            and res["message"] == r.message and obs_calls == calls)
    print("selftest 1 observers transparent:", "ok" if same else "FAILED")
    ok &= same
    # ---- 2. corruption --------------------------------------------------------
    proj, info = project(raw, 0)
    v, r0 = _validate([proj], "faithful")
    errs0 = sorted(e["c"] for e in v[0]["errs"]) if v else None
    acc = v is not None and all(c.startswith("C17.") for c in errs0)
    print("selftest 2a faithful trace accepted (only the recorded C17 finding may appear):",
          "ok" if acc else "FAILED", errs0)
    ok &= acc

    def expect(name, mutate, clause_prefix):
        nonlocal ok
        p2 = copy.deepcopy(proj)
        mutate(p2)
        v2, r2 = _validate([p2], name)
        if v2 is None:
            got = ["<trace not consumed>"]
            hit = "not_consumed" == clause_prefix
        else:
            got = sorted(e["c"] for e in v2[0]["errs"])
            hit = any(c.startswith(clause_prefix) for c in got)
        print(f"selftest 2 {name}: expected {clause_prefix}* ->", "rejected ok" if hit else "FAILED", got[:6])
        ok &= hit

    def m_k(p):
        e = [x for x in p if x["e"] == "PollEnd"][1]
        e["k"] += 1
    expect("corrupt PollEnd.k", m_k, "C13.")

    def m_drop(p):
        i = [j for j, x in enumerate(p) if x["e"] == "Eval" and x["kind"] == "search"][0]
        del p[i]
    expect("drop one search Eval", m_drop, "C03.count_honest")

    def m_box(p):
        e = [x for x in p if x["e"] == "Eval" and x["kind"] == "poll"][0]
        e["xR"][0] = 10 ** 6
    expect("move a polled point outside the box", m_box, "C01.eval_in_box_orig")

    def m_inc(p):
        e = [x for x in p if x["e"] == "Result"][0]
        e["fvalR"] += 1
    expect("result value not the minimum", m_inc, "C04.incumbent_is_min")

    def m_hist(p):
        e = [x for x in p if x["e"] == "HistRecord"][-1]
        e["fc"] -= 1
    expect("history func_count off by one", m_hist, "C19.hist_fc_is_count")

    def m_dir(p):
        e = [x for x in p if x["e"] == "Eval" and x["kind"] == "poll"][0]
        e["d"] = [3, 3]
    expect("poll offset not a generated direction", m_dir, "C14.poll_point_on_direction")
    # ---- 2b. direct refinement of the design spec (BadsRunRefine): binding demonstration ------
    from .refine import refine_runs

    def nth(evs, name, pred=lambda e: True, n=1):
        c = 0
        for j, e in enumerate(evs):
            if e["e"] == name and pred(e):
                c += 1
                if c == n:
                    return j
        raise RuntimeError("no event " + name)

    def bump(name, field, delta, pred=lambda e: True, n=1):
        def mut(ev):
            ev[nth(ev, name, pred, n)][field] += delta
        return mut
    variants = [("faithful", lambda ev: None, "accepted", None),
                ("PollEnd.k + 1", bump("PollEnd", "k", 1), "rejected", "ChkMesh"),
                ("search value + 1", bump("Eval", "yR", 1, lambda e: e["kind"] == "search"), "rejected", "ChkVal"),
                ("LoopEnd.iter + 1", bump("LoopEnd", "iter", 1), "rejected", "ChkCtr"),
                ("Reserve.budgeteff - 1", bump("Reserve", "budgeteff", -1), "rejected", "ChkCnt"),
                ("a poll evaluation deleted",
                 lambda ev: ev.__delitem__(nth(ev, "Eval", lambda e: e["kind"] == "poll", 2)), "rejected", "ChkCnt")]
    evsets = []
    for name, mut, want, group in variants:
        ev = copy.deepcopy(proj)
        mut(ev)
        evsets.append(ev)
    outs = refine_runs([sc] * len(variants), evsets)
    for (name, mut, want, group), o in zip(variants, outs):
        good = o["status"] == want and (group is None or group in (o.get("groups") or []))
        print(f"selftest 2b refinement against BadsRun.tla, {name}: {o['status']}"
              + (f" at event {o.get('at')} (group {o.get('groups')})" if o["status"] == "rejected" else "")
              + (" ok" if good else " FAILED"))
        ok &= good
    # ---- 3. hook guard off -----------------------------------------------------
    os.environ["PYBADS_VERIF"] = "0"
    try:
        raw_off = run_scenario(sc)
    finally:
        os.environ["PYBADS_VERIF"] = "1"
    n_le = sum(1 for e in raw_off if e["ev"] == "LoopEnd")
    try:
        project(raw_off, 0)
        mach = False
    except MachineryError:
        mach = True
    print("selftest 3 hook guard off: LoopEnd events =", n_le, "-> machinery failure raised:", "ok" if (n_le == 0 and mach) else "FAILED")
    ok &= (n_le == 0 and mach)
    print("SELFTEST", "PASSED" if ok else "FAILED")
    return 0 if ok else 2


if __name__ == "__main__":
    sys.exit(main())
