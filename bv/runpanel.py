"""Run a panel of scenarios against the real code (in parallel worker
processes), project the traces, validate them with TLC against
specs/BadsRunTrace.tla, and return per-run verdicts.

Results are cached under /verif/.cache/panels keyed by the hash of the
repository's source tree, of /verif/bv + /verif/specs, and of the scenario
list, so that several property checks sharing a panel validate it once."""
import hashlib
import json
import multiprocessing as mp
import os
import pickle
import sys
import time

from . import common
from .common import CACHE, REPO, MachineryError
from .tlc import run_tlc


def _tree_hash():
    h = hashlib.sha256()
    for dp, dn, fn in sorted(os.walk(os.path.join(REPO, "pybads"))):
        dn[:] = sorted(d for d in dn if d != "__pycache__")
        for f in sorted(fn):
            if f.endswith((".py", ".ini")):
                p = os.path.join(dp, f)
                h.update(p.encode())
                with open(p, "rb") as fh:
                    h.update(fh.read())
    # only what a recorded + validated panel depends on (not the component specs / drivers)
    for rel in ("bv/recorder.py", "bv/gpseams.py", "bv/projection.py", "bv/scenarios.py", "bv/runpanel.py",
                "bv/tlc.py", "bv/refine.py", "specs/BadsRunTrace.tla", "specs/BadsRules.tla", "specs/BadsRun.tla",
                "specs/BadsRunRefine.tla"):
        p = os.path.join(common.VERIF, rel)
        h.update(rel.encode())
        with open(p, "rb") as fh:
            h.update(fh.read())
    return h.hexdigest()[:20]


def _work(arg):
    idx, sc = arg
    # imports inside the worker so that the current tree is read
    import warnings
    warnings.filterwarnings("ignore")
    import logging
    logging.disable(logging.CRITICAL)
    import numpy as np
    np.seterr(all="ignore")
    from .recorder import run_scenario
    from .projection import project
    t0 = time.time()
    try:
        raw = run_scenario(sc)
        proj, info = project(raw, idx)
        summary = _raw_summary(raw)
        return idx, proj, info, summary, None, time.time() - t0
    except BaseException as e:   # machinery failure in recorder/projection
        import traceback
        return idx, None, None, None, traceback.format_exc()[-2000:], time.time() - t0


def _raw_summary(raw):
    """small per-run facts kept for evidence / statistics (not verdicts)"""
    out = {"n_events": len(raw)}
    for e in raw:
        if e["ev"] == "Result":
            out.update(fval=e["fval"], fc=e["func_count"], msg=e["message"][:60],
                       iterations=e["iterations"], x=[float(v) for v in e["x"].ravel()],
                       target_type=e["target_type"])
        elif e["ev"] == "Crash":
            out.update(crash=e["type"], frame=e.get("frame"), crash_msg=e.get("msg", "")[:200],
                       crash_src=e.get("src", ""))
        elif e["ev"] == "Construct" and e["outcome"] != "ok":
            out.update(rejected=e["outcome"], rej_msg=e.get("msg", "")[:160])
    ys = []
    for e in raw:
        if e["ev"] == "Eval" and e["outcome"] == "ok" and e["tcalls"]:
            ys.append(e["tcalls"][0].get("y"))
    out["ys"] = ys
    return out


def _json_default(o):
    import numpy as np
    if isinstance(o, (np.integer,)):
        return int(o)
    if isinstance(o, (np.floating,)):
        return float(o)
    if isinstance(o, (np.bool_,)):
        return bool(o)
    if isinstance(o, np.ndarray):
        return o.tolist()
    raise TypeError(type(o))


def run_panel(scs, name="panel", procs=None, use_cache=True, tlc_timeout=1200):
    """Returns dict: verdicts (list per run of list of [clause, event]),
    events (projected events per run), infos, summaries, stats."""
    key = hashlib.sha256((_tree_hash() + json.dumps(scs, sort_keys=True, default=str)).encode()).hexdigest()[:24]
    cdir = os.path.join(CACHE, "panels")
    os.makedirs(cdir, exist_ok=True)
    cpath = os.path.join(cdir, f"{name}-{key}.pkl")
    if use_cache and os.path.exists(cpath):
        with open(cpath, "rb") as fh:
            res = pickle.load(fh)
        res["cached"] = True
        return res
    t0 = time.time()
    procs = procs or min(len(scs), os.cpu_count() or 4)
    ctx = mp.get_context("fork")
    results = [None] * len(scs)
    with ctx.Pool(procs, maxtasksperchild=8) as pool:
        for r in pool.imap_unordered(_work, list(enumerate(scs)), chunksize=1):
            results[r[0]] = r
    t_run = time.time() - t0
    mach = [(r[0], r[4]) for r in results if r[4] is not None]
    if mach:
        raise MachineryError("recorder/projection failed for scenario %s:\n%s"
                             % (scs[mach[0][0]].get("id"), mach[0][1]))
    # concatenate the traces
    wdir = os.path.join(CACHE, "traces")
    os.makedirs(wdir, exist_ok=True)
    tpath = os.path.join(wdir, f"{name}-{key}.ndjson")
    opath = os.path.join(wdir, f"{name}-{key}.verdicts.json")
    if os.path.exists(opath):
        os.remove(opath)
    offsets = []
    n_lines = 0
    with open(tpath, "w") as fh:
        for r in results:
            offsets.append(n_lines)
            for evd in r[1]:
                fh.write(json.dumps(evd, default=_json_default, separators=(",", ":")))
                fh.write("\n")
                n_lines += 1
    t1 = time.time()
    tl = run_tlc("BadsRunTrace", cfg=TRACE_CFG, workers=1, timeout=tlc_timeout,
                 env={"TRACE_FILE": tpath, "OUT_FILE": opath}, deadlock=False,
                 jvm_mem="6g")
    t_tlc = time.time() - t1
    if not tl.ok or not os.path.exists(opath):
        tail = tl.output[-3000:]
        raise MachineryError("trace validation did not complete (TLC): %s\n%s"
                             % (tl.summary(), tail))
    with open(opath) as fh:
        vd = json.load(fh)
    verdicts = [None] * len(scs)
    for v in vd:
        errs = v["errs"]
        verdicts[v["r"]] = [(e["c"], e["l"] - 1 - offsets[v["r"]]) for e in errs]
    if any(v is None for v in verdicts):
        raise MachineryError("verdict missing for some runs")
    # ---- direct refinement of the design specification (BadsRun.tla) by each run -------------
    from . import refine
    t2 = time.time()
    rf = refine.refine_runs(scs, [r[1] for r in results])
    t_ref = time.time() - t2
    for i, o in enumerate(rf):
        if o["status"] == "machinery":
            raise MachineryError("refinement check failed for scenario %s:\n%s" % (scs[i].get("id"), o["detail"]))
        if o["status"] == "rejected":
            for cl in refine.clauses_for(scs[i], o):
                verdicts[i].append((cl, o["orig_index"]))
    res = {
        "refine": [{k: v for k, v in o.items() if k not in ("detail",)} for o in rf],
        "t_refine": round(t_ref, 1),
        "verdicts": verdicts,
        "events": [r[1] for r in results],
        "infos": [r[2] for r in results],
        "summaries": [r[3] for r in results],
        "stats": {"runs": len(scs), "events": n_lines, "t_run": round(t_run, 1),
                  "t_tlc": round(t_tlc, 1), "tlc_states": tl.states_generated,
                  "tlc_distinct": tl.distinct_states, "run_times": [round(r[5], 2) for r in results]},
        "trace_path": None,
        "cached": False,
    }
    with open(cpath, "wb") as fh:
        pickle.dump(res, fh)
    # housekeeping: the validated trace is reproducible from the scenarios; keep the caches bounded
    for f in (tpath, opath):
        try:
            os.remove(f)
        except OSError:
            pass
    _prune(cdir, 120)
    _prune(os.path.join(CACHE, "tlc"), 12, dirs=True)
    return res


def _prune(d, keep, dirs=False):
    import shutil
    try:
        ents = [os.path.join(d, f) for f in os.listdir(d)]
        ents.sort(key=lambda p: os.path.getmtime(p), reverse=True)
        for p in ents[keep:]:
            if os.path.isdir(p):
                if dirs:
                    shutil.rmtree(p, ignore_errors=True)
            else:
                os.remove(p)
    except OSError:
        pass


TRACE_CFG = """SPECIFICATION TSpec
POSTCONDITION TraceAccepted
CHECK_DEADLOCK FALSE
"""
