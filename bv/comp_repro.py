"""C07 component check: specs/Repro.tla enumerates every schedule (<= 6 steps) of
constructing / running the instance under test T among foreign draws,
constructions and runs; each schedule is replayed in a FRESH process and T's
call log and result are compared bit for bit with the two-step reference."""
import multiprocessing as mp
import os
import shutil

import numpy as np

from .common import MachineryError, seed
from .tlaval import parse_dump
from .tlc import run_tlc

KINDS = {
    "det_x0": {"noisy": False, "x0": True},
    "det_nox0": {"noisy": False, "x0": False},
    "noisy_x0": {"noisy": True, "x0": True},
    "noisy_nox0": {"noisy": True, "x0": False},
    # the valid seed 0 (a falsy value): must seed like any other
    "det_nox0_seed0": {"noisy": False, "x0": False, "abs_seed": 0},
}
# escalation problems: used only when a schedule changed the INTERNAL signals of the run under test (GP
# hyperparameters after a fit, hedge probabilities, poll bases) without changing the evaluated points of the
# small default problem -- a leak of process history that needs a more sensitive problem to become observable
ESC = {}
for _d, _f in ((3, "rosen"), (4, "rosen"), (2, "rosen"), (2, "quartic"), (3, "quad")):
    for _s in (1, 2, 3):
        ESC[f"esc_{_f}{_d}_s{_s}"] = {"noisy": False, "x0": False, "D": _d, "fun": _f, "seed": _s, "budget": 60 + 15 * _d}
ALLKINDS = dict(KINDS)
ALLKINDS.update(ESC)


def _replay(job):
    """runs in a fresh process (maxtasksperchild=1)"""
    kind, sched, sd = job
    import logging
    logging.disable(logging.CRITICAL)
    from pybads.bads.bads import BADS
    k = ALLKINDS[kind]
    D = k.get("D", 2)
    log = []
    sig = []               # internal signals of the run under test
    active = [False]
    import gpyreg
    import pybads.bads.bads as _BB
    import pybads.search.search_hedge as _SH
    _fit0 = gpyreg.GP.fit

    def _fit(self, *a, **kw):
        if active[0]:
            # inputs of the fit too: the starting hyperparameters are part of what the run computes from
            try:
                h0 = kw.get("hyp0", a[3] if len(a) > 3 else None)
                sig.append(("fit_in", b"None" if h0 is None else np.asarray(h0, dtype=float).tobytes()))
            except Exception:
                sig.append(("fit_in", b"?"))
        r = _fit0(self, *a, **kw)
        if active[0]:
            try:
                sig.append(("fit", np.asarray(r[0], dtype=float).tobytes()))
            except Exception:
                sig.append(("fit", b"?"))
        return r
    gpyreg.GP.fit = _fit
    _poll0 = _BB.poll_mads_2n

    def _poll(*a, **kw):
        B = _poll0(*a, **kw)
        if active[0]:
            try:
                sig.append(("poll", np.asarray(B, dtype=float).tobytes()))
            except Exception:
                sig.append(("poll", b"?"))
        return B
    _BB.poll_mads_2n = _poll
    _hedge0 = _SH.ESSearchHedge.__call__

    def _hedge(self, *a, **kw):
        r = _hedge0(self, *a, **kw)
        if active[0]:
            try:
                sig.append(("hedge", np.asarray(getattr(self, "g", 0.0), dtype=float).tobytes(),
                            np.asarray(getattr(self, "chosen_hedge", -1)).tobytes()))
            except Exception:
                sig.append(("hedge", b"?"))
        return r
    _SH.ESSearchHedge.__call__ = _hedge

    def target(x):
        x = np.asarray(x, dtype=float).ravel()
        fun = k.get("fun", "sphere")
        if fun == "rosen":
            y = float(np.sum(100.0 * (x[1:] - x[:-1] ** 2) ** 2 + (1.0 - x[:-1]) ** 2))
        elif fun == "quartic":
            y = float(np.sum((x - 0.4) ** 4) + 0.5 * np.sum(x ** 2))
        elif fun == "quad":
            y = float(np.sum(np.arange(1, x.size + 1) * (x + 0.3) ** 2))
        else:
            y = float(np.sum((x - 0.7) ** 2))
        if k["noisy"]:
            y += 0.4 * float(np.random.normal())        # noise from NumPy's global generator
        log.append((x.tobytes(), y))
        return y
    T = None
    F = None
    res = None
    def step(op):
        nonlocal T, F, res
        if op == "CT":
            opts = {"display": "off", "random_seed": k["abs_seed"] if "abs_seed" in k else 100 + sd + k.get("seed", 0),
                    "max_fun_evals": k.get("budget", 70 if k["noisy"] else 45), "noise_final_samples": 3}
            x0 = np.array([[1.5, -1.0]]) if k["x0"] else None
            T = BADS(target, x0, np.full((1, D), -5.0), np.full((1, D), 5.0), np.full((1, D), -2.0),
                     np.full((1, D), 2.0), options=opts)
        elif op == "RT":
            active[0] = True
            try:
                res = T.optimize()
            finally:
                active[0] = False
        elif op == "FD":
            np.random.rand(7)
            np.random.normal(size=3)
        elif op in ("FCs", "FCu"):
            fo = {"display": "off", "max_fun_evals": 60, "tol_fun": 1e-2, "uncertainty_handling": True,
                  "n_search_iter": 3, "es_start": 0.5, "search_n_try": 2, "hedge_gamma": 0.3}
            if op == "FCs":
                fo["random_seed"] = 555
            F = BADS(lambda x: float(np.sum(np.asarray(x) ** 2)) + 0.1 * float(np.random.normal()),
                     None, np.full((1, 3), -3.0), np.full((1, 3), 3.0), np.full((1, 3), -1.0), np.full((1, 3), 1.0),
                     options=fo)
        elif op in ("FCsD", "FCuD"):
            # same dimension and box as T, the OTHER noise mode and another initial-design size
            fo = {"display": "off", "max_fun_evals": 50, "fun_eval_start": 7}
            if op == "FCsD":
                fo["random_seed"] = 777
            if k["noisy"]:
                ff = lambda x: float(np.sum((np.asarray(x) + 0.3) ** 2))
            else:
                ff = lambda x: float(np.sum((np.asarray(x) + 0.3) ** 2)) + 0.2 * float(np.random.normal())
                fo["uncertainty_handling"] = True
                fo["noise_final_samples"] = 2
            F = BADS(ff, np.array([[1.5, -1.0]]), np.array([[-5.0, -5.0]]), np.array([[5.0, 5.0]]),
                     np.array([[-2.0, -2.0]]), np.array([[2.0, 2.0]]), options=fo)
        elif op == "FR":
            F.optimize()
    for op in sched:
        try:
            step(op)
        except Exception as e:
            import traceback
            return job, {"error": f"{op}: {type(e).__name__}: {e}", "tb": traceback.format_exc()[-700:]}
    out = {"log": log, "x": np.asarray(res.x, float).tobytes(), "fval": float(res.fval), "fsd": float(res.fsd),
           "fc": int(res.func_count), "msg": str(res.message), "x0": np.asarray(T.x0, float).tobytes(),
           "sig": sig}
    return job, out


def run(verdict, tier):
    total_states = 0
    scheds = None
    for x0given in (False, True):
        cfg = ("SPECIFICATION Spec\nCONSTANTS\n  SeedT = 7\n  X0Given = %s\n  DimT = 2\n  MaxLen = %d\n"
               "INVARIANT RunInputHistoryFree\n" % ("TRUE" if x0given else "FALSE", 6))
        r = run_tlc("Repro", cfg=cfg, timeout=600, dump="out", keep=True)
        if not r.ok:
            shutil.rmtree(r.workdir, ignore_errors=True)
            if r.violated:
                verdict.violation("C07.design_model:" + ",".join(r.violated), site="Repro.tla", where=f"x0given={x0given}")
                continue
            raise MachineryError("Repro TLC failed: %s\n%s" % (r.summary(), r.output[-1200:]))
        total_states += r.distinct_states
        if scheds is None:
            sts = parse_dump(os.path.join(r.workdir, "out.dump"))
            scheds = sorted({tuple(s["hist"]) for s in sts if s["tStage"] == "run"}, key=lambda h: (len(h), h))
        shutil.rmtree(r.workdir, ignore_errors=True)
    ref_s = ("CT", "RT")
    if tier == "quick":
        pick = [s for s in scheds if len(s) <= 4]
        longer = [s for s in scheds if len(s) > 4]
        pick += longer[:: max(1, len(longer) // 10)]
    else:
        pick = scheds
    sd = seed()
    jobs = [(kind, s, sd) for kind in KINDS for s in pick if s != ref_s]
    jobs += [(kind, ref_s, sd) for kind in KINDS] * 2        # reference, twice (fresh processes)
    ctx = mp.get_context("fork")
    results = {}
    with ctx.Pool(os.cpu_count() or 4, maxtasksperchild=1) as pool:
        for job, out in pool.imap_unordered(_replay, jobs, chunksize=1):
            if "error" in out:
                verdict.violation("C07.schedule_completes", site="schedule", where=f"kind={job[0]} schedule={job[1]}",
                                  detail=out)
                continue
            results.setdefault((job[0], job[1]), []).append(out)
    n_cmp = 0
    samples = []
    suspects = []         # schedules that changed internal signals only
    for kind in KINDS:
        refs = results.get((kind, ref_s))
        if not refs:
            continue
        ref = refs[0]
        for other in refs[1:]:
            if other != ref:
                verdict.violation("C07.same_seed_same_run", site="fresh process x2", where=f"kind={kind}", detail={})
        for (kd, s), outs in results.items():
            if kd != kind or s == ref_s:
                continue
            n_cmp += 1
            out = outs[0]
            if out["x0"] != ref["x0"]:
                verdict.violation("C07.random_x0_history_free", site="schedule", where=f"kind={kind} schedule={s}", detail={})
            if out["log"] != ref["log"]:
                first = next((i for i, (a, b) in enumerate(zip(out["log"], ref["log"])) if a != b),
                             min(len(out["log"]), len(ref["log"])))
                verdict.violation("C07.same_points_evaluated", site="schedule", where=f"kind={kind} schedule={s}",
                                  detail={"first_difference_at_call": first, "n_calls": [len(out["log"]), len(ref["log"])]})
            for fld in ("x", "fval", "fsd", "fc", "msg"):
                if out[fld] != ref[fld]:
                    verdict.violation("C07.same_result", site="schedule", where=f"kind={kind} schedule={s}",
                                      detail={"field": fld})
                    break
            if out["log"] == ref["log"] and out["x"] == ref["x"] and out.get("sig") != ref.get("sig"):
                suspects.append((kind, s))
            if len(samples) < 3 and len(s) >= 4:
                samples.append({"kind": kind, "schedule": list(s), "n_calls": len(out["log"]), "identical": out == ref})
    # ---- escalation: history changed the run's internals but not (yet) its evaluated points ------------------
    esc_info = {"suspect_schedules": len(suspects), "escalated": 0, "observable": 0}
    if suspects:
        seen_s = []
        for kind, s in suspects:
            if s not in seen_s:
                seen_s.append(s)
        seen_s = seen_s[:3]
        ejobs = [(ek, s, sd) for ek in ESC for s in seen_s] + [(ek, ref_s, sd) for ek in ESC]
        eres = {}
        with ctx.Pool(os.cpu_count() or 4, maxtasksperchild=1) as pool:
            for job, out in pool.imap_unordered(_replay, ejobs, chunksize=1):
                if "error" not in out:
                    eres[(job[0], job[1])] = out
        for ek in ESC:
            ref = eres.get((ek, ref_s))
            if ref is None:
                continue
            for s in seen_s:
                out = eres.get((ek, s))
                if out is None:
                    continue
                esc_info["escalated"] += 1
                if out["log"] != ref["log"] or out["x"] != ref["x"] or out["fval"] != ref["fval"]:
                    esc_info["observable"] += 1
                    first = next((i for i, (a, b) in enumerate(zip(out["log"], ref["log"])) if a != b),
                                 min(len(out["log"]), len(ref["log"])))
                    verdict.violation("C07.same_points_evaluated", site="schedule(escalated)",
                                      where=f"kind={ek} schedule={s}",
                                      detail={"first_difference_at_call": first,
                                              "n_calls": [len(out["log"]), len(ref["log"])],
                                              "note": "found after the schedule changed GP / hedge / poll internals of the default problem"})
    verdict.coverage["repro_internal_signal_escalation"] = esc_info
    verdict.coverage.update({"repro_states": total_states, "repro_schedules_in_model": len(scheds),
                             "repro_schedules_replayed": len(pick), "repro_comparisons": n_cmp,
                             "repro_samples": samples, "repro_kinds": list(KINDS)})
    return total_states, n_cmp
