"""C07 component check: specs/Repro.tla enumerates every schedule (<= 6 steps) of
constructing / running the instance under test T among foreign draws,
constructions and runs; each schedule is replayed in a FRESH process and T's
call log and result are compared bit for bit with the two-step reference."""
import multiprocessing as mp
import os
import shutil

import numpy as np

from .common import MachineryError, seed
from .tlaval import parse_dump
from .tlc import run_tlc

KINDS = {
    "det_x0": {"noisy": False, "x0": True},
    "det_nox0": {"noisy": False, "x0": False},
    "noisy_x0": {"noisy": True, "x0": True},
    "noisy_nox0": {"noisy": True, "x0": False},
}


def _replay(job):
    """runs in a fresh process (maxtasksperchild=1)"""
    kind, sched, sd = job
    import logging
    logging.disable(logging.CRITICAL)
    from pybads.bads.bads import BADS
    k = KINDS[kind]
    D = 2
    log = []

    def target(x):
        x = np.asarray(x, dtype=float).ravel()
        y = float(np.sum((x - 0.7) ** 2))
        if k["noisy"]:
            y += 0.4 * float(np.random.normal())        # noise from NumPy's global generator
        log.append((x.tobytes(), y))
        return y
    T = None
    F = None
    res = None
    def step(op):
        nonlocal T, F, res
        if op == "CT":
            opts = {"display": "off", "random_seed": 100 + sd, "max_fun_evals": 70 if k["noisy"] else 45,
                    "noise_final_samples": 3}
            x0 = np.array([[1.5, -1.0]]) if k["x0"] else None
            T = BADS(target, x0, np.array([[-5.0, -5.0]]), np.array([[5.0, 5.0]]), np.array([[-2.0, -2.0]]),
                     np.array([[2.0, 2.0]]), options=opts)
        elif op == "RT":
            res = T.optimize()
        elif op == "FD":
            np.random.rand(7)
            np.random.normal(size=3)
        elif op in ("FCs", "FCu"):
            fo = {"display": "off", "max_fun_evals": 60, "tol_fun": 1e-2, "uncertainty_handling": True}
            if op == "FCs":
                fo["random_seed"] = 555
            F = BADS(lambda x: float(np.sum(np.asarray(x) ** 2)) + 0.1 * float(np.random.normal()),
                     None, np.full((1, 3), -3.0), np.full((1, 3), 3.0), np.full((1, 3), -1.0), np.full((1, 3), 1.0),
                     options=fo)
        elif op in ("FCsD", "FCuD"):
            # same dimension and box as T, the OTHER noise mode and another initial-design size
            fo = {"display": "off", "max_fun_evals": 50, "fun_eval_start": 7}
            if op == "FCsD":
                fo["random_seed"] = 777
            if k["noisy"]:
                ff = lambda x: float(np.sum((np.asarray(x) + 0.3) ** 2))
            else:
                ff = lambda x: float(np.sum((np.asarray(x) + 0.3) ** 2)) + 0.2 * float(np.random.normal())
                fo["uncertainty_handling"] = True
                fo["noise_final_samples"] = 2
            F = BADS(ff, np.array([[1.5, -1.0]]), np.array([[-5.0, -5.0]]), np.array([[5.0, 5.0]]),
                     np.array([[-2.0, -2.0]]), np.array([[2.0, 2.0]]), options=fo)
        elif op == "FR":
            F.optimize()
    for op in sched:
        try:
            step(op)
        except Exception as e:
            import traceback
            return job, {"error": f"{op}: {type(e).__name__}: {e}", "tb": traceback.format_exc()[-700:]}
    out = {"log": log, "x": np.asarray(res.x, float).tobytes(), "fval": float(res.fval), "fsd": float(res.fsd),
           "fc": int(res.func_count), "msg": str(res.message), "x0": np.asarray(T.x0, float).tobytes()}
    return job, out


def run(verdict, tier):
    total_states = 0
    scheds = None
    for x0given in (False, True):
        cfg = ("SPECIFICATION Spec\nCONSTANTS\n  SeedT = 7\n  X0Given = %s\n  DimT = 2\n  MaxLen = %d\n"
               "INVARIANT RunInputHistoryFree\n" % ("TRUE" if x0given else "FALSE", 6))
        r = run_tlc("Repro", cfg=cfg, timeout=600, dump="out", keep=True)
        if not r.ok:
            shutil.rmtree(r.workdir, ignore_errors=True)
            if r.violated:
                verdict.violation("C07.design_model:" + ",".join(r.violated), site="Repro.tla", where=f"x0given={x0given}")
                continue
            raise MachineryError("Repro TLC failed: %s\n%s" % (r.summary(), r.output[-1200:]))
        total_states += r.distinct_states
        if scheds is None:
            sts = parse_dump(os.path.join(r.workdir, "out.dump"))
            scheds = sorted({tuple(s["hist"]) for s in sts if s["tStage"] == "run"}, key=lambda h: (len(h), h))
        shutil.rmtree(r.workdir, ignore_errors=True)
    ref_s = ("CT", "RT")
    if tier == "quick":
        pick = [s for s in scheds if len(s) <= 4]
        longer = [s for s in scheds if len(s) > 4]
        pick += longer[:: max(1, len(longer) // 10)]
    else:
        pick = scheds
    sd = seed()
    jobs = [(kind, s, sd) for kind in KINDS for s in pick if s != ref_s]
    jobs += [(kind, ref_s, sd) for kind in KINDS] * 2        # reference, twice (fresh processes)
    ctx = mp.get_context("fork")
    results = {}
    with ctx.Pool(os.cpu_count() or 4, maxtasksperchild=1) as pool:
        for job, out in pool.imap_unordered(_replay, jobs, chunksize=1):
            if "error" in out:
                verdict.violation("C07.schedule_completes", site="schedule", where=f"kind={job[0]} schedule={job[1]}",
                                  detail=out)
                continue
            results.setdefault((job[0], job[1]), []).append(out)
    n_cmp = 0
    samples = []
    for kind in KINDS:
        refs = results.get((kind, ref_s))
        if not refs:
            continue
        ref = refs[0]
        for other in refs[1:]:
            if other != ref:
                verdict.violation("C07.same_seed_same_run", site="fresh process x2", where=f"kind={kind}", detail={})
        for (kd, s), outs in results.items():
            if kd != kind or s == ref_s:
                continue
            n_cmp += 1
            out = outs[0]
            if out["x0"] != ref["x0"]:
                verdict.violation("C07.random_x0_history_free", site="schedule", where=f"kind={kind} schedule={s}", detail={})
            if out["log"] != ref["log"]:
                first = next((i for i, (a, b) in enumerate(zip(out["log"], ref["log"])) if a != b),
                             min(len(out["log"]), len(ref["log"])))
                verdict.violation("C07.same_points_evaluated", site="schedule", where=f"kind={kind} schedule={s}",
                                  detail={"first_difference_at_call": first, "n_calls": [len(out["log"]), len(ref["log"])]})
            for fld in ("x", "fval", "fsd", "fc", "msg"):
                if out[fld] != ref[fld]:
                    verdict.violation("C07.same_result", site="schedule", where=f"kind={kind} schedule={s}",
                                      detail={"field": fld})
                    break
            if len(samples) < 3 and len(s) >= 4:
                samples.append({"kind": kind, "schedule": list(s), "n_calls": len(out["log"]), "identical": out == ref})
    verdict.coverage.update({"repro_states": total_states, "repro_schedules_in_model": len(scheds),
                             "repro_schedules_replayed": len(pick), "repro_comparisons": n_cmp,
                             "repro_samples": samples, "repro_kinds": list(KINDS)})
    return total_states, n_cmp
