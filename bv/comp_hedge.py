"""C18 component check: Hedge.tla probabilities (exact rationals for every small
weight vector) compared with the real ESSearchHedge; selection masks produced by
the real _get_selection_idx_mask_ evaluated by TLC against MaskValid."""
import json
import os
import shutil
from fractions import Fraction

import numpy as np

from .common import CACHE, MachineryError
from .tlaval import parse_dump
from .tlc import run_tlc


def _hedge_probs(weights, gamma_inv):
    """drive the real ESSearchHedge.__call__ with stub strategies; return its prob vector"""
    import pybads.search.search_hedge as SH

    class Stub:
        def __init__(self, *a, **k):
            pass

        def __call__(self, u, *a, **k):
            return np.asarray(u, dtype=float), 0.0
    saved = (SH.ESSearchWM, SH.ESSearchELL)
    SH.ESSearchWM = Stub
    SH.ESSearchELL = Stub
    try:
        n = len(weights)
        beta = 2.0
        opts = {"hedge_gamma": 1.0 / gamma_inv, "hedge_beta": beta, "hedge_decay": 0.5,
                "n_search_iter": 2, "n_search": 8}
        fcns = [("ES-wcm", 1), ("ES-ell", 1), ("ES-wcm", 1)][:n]
        h = SH.ESSearchHedge(fcns, opts)
        h.g = np.log(np.array(weights, dtype=float)) / beta
        h(np.zeros(2), None, None, None, None, {})
        return np.asarray(h.prob, dtype=float), int(np.asarray(h.chosen_hedge).ravel()[0])
    finally:
        SH.ESSearchWM, SH.ESSearchELL = saved


def run(verdict, tier):
    total_states = 0
    cases = 0
    for n in (2, 3):
        cfg = ("SPECIFICATION Spec\nCONSTANTS\n  NFuns = %d\n  GammaInv = 8\n  WMax = %d\n"
               "INVARIANT SumsToOne\nINVARIANT AtLeastFloor\nINVARIANT FloorFeasible\nINVARIANT Monotone\n"
               % (n, 5 if tier == "quick" else 7))
        r = run_tlc("Hedge", cfg=cfg, timeout=300, dump="out", keep=True, env={"MASK_FILE": "none", "OUT_FILE": "none"})
        if not r.ok:
            if r.violated:
                verdict.violation("C18.design_model:" + ",".join(r.violated), site="Hedge.tla", where=f"n={n}")
                shutil.rmtree(r.workdir, ignore_errors=True)
                continue
            raise MachineryError("Hedge TLC failed: %s\n%s" % (r.summary(), r.output[-1200:]))
        states = parse_dump(os.path.join(r.workdir, "out.dump"))
        shutil.rmtree(r.workdir, ignore_errors=True)
        total_states += r.distinct_states
        for st in states:
            w = list(st["w"])
            num = list(st["num"])
            den = 8 * sum(w)
            try:
                p, chosen = _hedge_probs(w, 8)
            except Exception as e:
                verdict.violation("C18.hedge_call_raises", site="ESSearchHedge.__call__", where=f"weights={w}",
                                  detail={"error": repr(e)[:120]})
                continue
            cases += 1
            want = np.array([float(Fraction(a, den)) for a in num])
            if p.shape != want.shape or not np.allclose(p, want, rtol=1e-12, atol=1e-12):
                # fall back to the property's own clauses on the real output
                if abs(float(np.sum(p)) - 1.0) > 1e-9 or not np.all(np.isfinite(p)):
                    verdict.violation("C18.prob_sums_to_one", site="ESSearchHedge.__call__", where=f"weights={w}",
                                      detail={"prob": p.tolist()})
                if np.any(p < 1.0 / 8 - 1e-12):
                    verdict.violation("C18.prob_at_least_gamma", site="ESSearchHedge.__call__", where=f"weights={w}",
                                      detail={"prob": p.tolist()})
                verdict.coverage["hedge_prob_drift_from_spec"] = verdict.coverage.get("hedge_prob_drift_from_spec", 0) + 1
            if not (0 <= chosen < n):
                verdict.violation("C18.chosen_in_range", site="ESSearchHedge.__call__", where=f"weights={w}",
                                  detail={"chosen": chosen})
    # ---- selection masks ----------------------------------------------------------
    from pybads.search.es_search import ESSearchWM
    es = ESSearchWM(4, 4, {"poll_mesh_multiplier": 2.0, "es_start": 0.25, "n_search_iter": 2,
                           "search_acq_fcn": ("acq_LCB", None), "es_beta": 1})
    mmax = 40 if tier == "quick" else 90
    wdir = os.path.join(CACHE, "masks")
    os.makedirs(wdir, exist_ok=True)
    mpath = os.path.join(wdir, f"masks-{os.getpid()}.ndjson")
    opath = os.path.join(wdir, f"masks-{os.getpid()}.out.json")
    nmask = 0
    with open(mpath, "w") as fh:
        for mu in range(1, mmax + 1):
            for lam in list(range(1, mmax + 1)) + [2048]:
                try:
                    m = es._get_selection_idx_mask_(mu, lam)
                except Exception as e:
                    verdict.violation("C18.mask_valid", site="_get_selection_idx_mask_", where=f"mu={mu} lambda={lam}",
                                      detail={"error": repr(e)[:100]})
                    continue
                used = min(lam, mu)
                fh.write(json.dumps({"mu": mu, "lam": lam, "mask": [int(v) for v in m[:used]]}) + "\n")
                nmask += 1
    r = run_tlc("HedgeMask", cfg="SPECIFICATION Spec\nPOSTCONDITION Consumed\nCHECK_DEADLOCK FALSE\n", workers=1,
                timeout=900, env={"MASK_FILE": mpath, "OUT_FILE": opath}, deadlock=False)
    if not r.ok or not os.path.exists(opath):
        raise MachineryError("HedgeMask TLC failed: %s\n%s" % (r.summary(), r.output[-1500:]))
    out = json.load(open(opath))
    for pair in out["bad"]:
        verdict.violation("C18.mask_valid", site="_get_selection_idx_mask_", where=f"mu={pair[0]} lambda={pair[1]}",
                          detail={})
    os.remove(mpath)
    os.remove(opath)
    total_states += r.distinct_states
    verdict.coverage.update({"hedge_states": total_states, "hedge_weight_vectors": cases,
                             "hedge_masks_checked_by_tlc": nmask})
    return total_states, cases + nmask
