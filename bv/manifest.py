"""Regenerate /verif/MANIFEST.json from the registry below:  python -m bv.manifest"""
import json
import os

VERIF = os.path.dirname(os.path.dirname(os.path.abspath(__file__)))

CHECKS = {}   # id -> dict(level, text, note, technique, design_ref)
NA = {}       # id -> reason


def chk(pid, level, text, note, technique, ref):
    CHECKS[pid] = dict(level=level, text=text, note=note, technique=technique, ref=ref)


RUN_NOTE = ("Trusted base: TLC, the projection (pids, dense ranks, numeric guards; tested by the self-test), "
            "the add-only observers, the loop_end hook. Bounded: the scenario panels, not all inputs.")

chk("C01", "model_checking",
    "Every evaluation, every constraint-call argument, the result and the final log of every run of the panels "
    "(geometries x landscapes x noise modes x constraints) are checked in TLC against the user's box via "
    "order-isomorphic ranks (BadsRunTrace: eval_in_box_orig/int, cons_args_in_box, result_in_box, log_in_box, log_maps_back).",
    RUN_NOTE, "TLA+ trace validation (TLC) of recorded real runs against BadsRunTrace.tla", "DESIGN.md 6 C01")
chk("C02", "model_checking",
    "Trace validation of constrained runs: no target call at a point the user's own constraint reports violated, feasible result, "
    "infeasible (snapped) x0 rejected with ValueError before any call.",
    RUN_NOTE, "TLA+ trace validation (TLC) of recorded real runs against BadsRunTrace.tla", "DESIGN.md 6 C02")
chk("C03", "model_checking",
    "Design model BadsRun.tla checked exhaustively by TLC for all search/poll outcome sequences (budget, iteration bound, honest count, "
    "truthful message, termination under fairness, tight non-progress bound); every real run is validated step by step against the same "
    "rules (BadsRules.tla) using the loop_end hook, AND checked to be a behaviour of BadsRun.tla itself (BadsRunRefine.tla: the design's own "
    "actions with logged arguments, per-run constants), so the model's guarantees transfer to the code paths actually taken; budget, iteration "
    "bound and mesh invariants additionally proved for unbounded parameters by an inductive invariant (Apalache, BadsCtlApa.tla).",
    RUN_NOTE, "TLC model checking of BadsRun.tla (safety+liveness) + TLA+ trace validation of real runs", "DESIGN.md 6 C03")
chk("C04", "model_checking",
    "Design model proves incumbent = minimum over all evaluated values for every value sequence incl. ties; traces of deterministic runs "
    "validated: result evaluated, fval observed at x, no lower value evaluated, monotone history, fsd 0, target_type; runs (incl. TLC-simulated "
    "behaviours of the design scripted into real targets) are accepted as behaviours of BadsRun.tla (BadsRunRefine.tla, incumbent-value bindings).",
    RUN_NOTE, "TLC model checking of BadsRun.tla + TLA+ trace validation of real runs", "DESIGN.md 6 C04")
chk("C05", "model_checking",
    "Trace validation of noisy runs (auto/declared/specified, final samples 0/1/3/10, tiny noise): final samples at the returned x and last, "
    "yval_vec/ysd_vec are those observations (rank equality decided in TLC), mean/SEM guards, noise detection rule; FinalSamplesTaken and the "
    "budget including the reserve proved for every Budget/NFinal (Apalache inductive invariant).",
    RUN_NOTE, "TLC model checking of BadsRun.tla (final phase) + TLA+ trace validation of real noisy runs", "DESIGN.md 6 C05")
chk("C09", "exploration",
    "Scenario panels steer real runs onto the rare paths the spec names as actions (empty search set, all ES candidates infeasible, "
    "merged repeats under specified noise, non-finite GP prediction, fit retries, budgets at the initial design, mode matrix); every trace must end in Result.",
    RUN_NOTE, "steered exploration of real runs, each validated as a behaviour of BadsRunTrace.tla (TLC)", "DESIGN.md 6 C09")
chk("C13", "model_checking",
    "Mesh exponent rule decided entirely in integers: design model for all outcome sequences; every poll step of every real run checked "
    "against MeshAfterPoll with an independent success/stall oracle recomputed from the improvement arguments; each run is also accepted "
    "as a behaviour of BadsRun.tla (BadsRunRefine.tla, mesh-exponent bindings); mesh <= 1 and search mesh <= poll mesh proved for unbounded "
    "parameters (Apalache inductive invariant).",
    RUN_NOTE, "TLC model checking of BadsRun.tla + TLA+ trace validation of real runs", "DESIGN.md 6 C13")

chk("C10", "fault_enumeration",
    "A fault-free reference run labels every target call with its position kind (x0, noise test, initial design, search, poll, final re-sampling); "
    "the fault (exception, NaN, +-inf, complex, vector, None; under specified noise also bad pair/SD forms) is injected at call k for every kind of position, "
    "in deterministic/auto/declared/specified modes; each faulted trace is validated by TLC against BadsRunTrace (TargetFault semantics of BadsRun.tla: "
    "same exception type / ValueError, no call after the fault, func_count counts valid calls only, nothing invalid logged). thorough: every k.",
    RUN_NOTE, "fault enumeration over call positions, each faulted run validated by TLC against BadsRunTrace.tla; TargetFault in BadsRun.tla model-checked", "DESIGN.md 6 C10")
chk("C12", "model_checking",
    "FuncLog.tla (log as a sequence of records, exact rational precision-weighted merge, ghost sums stating the property) model-checked: OtherRecordsUntouched, AppendOnly, "
    "CountsExact, MergedIsWeightedMean; every behaviour to depth 3 (state dump) and simulated behaviours to depth 12 replayed into a real FunctionLogger "
    "(with/without transformer, cache size 2 forcing growth), whole projected state compared after every operation; final logs of full runs checked against the call sequence.",
    "Trusted base: TLC, the TLA value parser, the replay driver. Bounded instance: 4 points incl. partial overlaps, values {0,3}, precisions {1,4}.",
    "TLC model checking of FuncLog.tla + replay of TLC-enumerated behaviours into the real FunctionLogger", "DESIGN.md 6 C12")
chk("C14", "model_checking",
    "PollDirs.tla: TLC enumerates every outcome of the generator's random choices (D<=3, mesh ratio 1,2,4) and checks non-singularity (|det| = n^D), bounds, symmetry, "
    "signed-permutation for n=1; every enumerated choice tuple is replayed into the real poll_mads_2n through a scripted random source and compared; "
    "in full runs TLC checks every polled point's integer offset is a not-yet-used direction and at most 2D points are polled.",
    RUN_NOTE, "TLC exhaustive enumeration of PollDirs.tla replayed into the real generator + TLA+ trace validation of runs", "DESIGN.md 6 C14")
chk("C15", "model_checking",
    "Every GP (re)fit, posterior update and acquisition call of every panel run is recorded and validated by TLC (BadsRunTrace): training pairs are log records, noise = logged SD squared, "
    "neighbours sorted by length-scaled distance and downward closed, size rule, incremental add appends the newest record, LCB formula with t = func_count + 1.",
    RUN_NOTE, "TLA+ trace validation (TLC) of recorded GP seam events of real runs", "DESIGN.md 6 C15")
chk("C17", "model_checking",
    "CandFilter.tla: TLC enumerates every input of the small lattice instance (candidates in {-1..2}^D, D<=2, any evaluated subset, any infeasible subset, proj on/off); "
    "each is replayed into the real contraints_check with a real FunctionLogger and the property's postconditions are evaluated on the output; "
    "every filter call of every panel run is validated in TLC through summary counts.",
    RUN_NOTE + " The clause 'not already evaluated' is a recorded known finding (pinned by an existing test).",
    "TLC exhaustive enumeration of CandFilter.tla replayed into the real filter + TLA+ trace validation of runs", "DESIGN.md 6 C17")
chk("C18", "model_checking",
    "Every search step of every panel run validated in TLC: the strategy's return is the acquisition argmin over all candidates it generated that survived filtering, "
    "all inside the mesh-rounded box, hedge probabilities proper, at most one evaluation per search step. Components: ESArchive.tla enumerates per-generation survivor counts "
    "and acquisition values (populations shrunk to few or zero survivors, 2-3 generations) and each case is replayed into the real ESSearchWM/ESSearchELL through a scripted filter and "
    "acquisition function; Hedge.tla gives the exact probabilities for every small weight vector, compared with the real ESSearchHedge; TLC evaluates the selection-mask contract on the "
    "masks produced by the real _get_selection_idx_mask_ for all (mu, lambda) <= 40 (90 thorough) and lambda = 2048.",
    RUN_NOTE, "TLA+ trace validation (TLC) of recorded search-step events of real runs + BadsRun.tla (SearchOneEval)", "DESIGN.md 6 C18")
chk("C19", "model_checking",
    "Run level: every history record and the result of every panel run validated in TLC against the call log (x evaluated, yval observed there, func_count monotone and exact, "
    "result among the iterates, result fields agree).",
    RUN_NOTE, "TLA+ trace validation (TLC) of recorded real runs against BadsRunTrace.tla", "DESIGN.md 6 C19")

chk("C06", "other",
    "The per-run clause (never worse than the mesh-snapped start) is decided by TLC on every trace. The population clauses (>= 90% of 60 random rotated quadratics "
    "within 1e-3; median evaluations-to-1e-2 <= 40*D) are statistical and cannot be stated in TLA+: they are measured on a panel every run of which is validated "
    "as a behaviour of BadsRunTrace (so a change that cripples the search/poll controller shows up as a conformance violation as well) and which must exercise "
    "SearchEnd(success/incremental) and PollEnd(good).",
    RUN_NOTE + " The statistical thresholds are the property's own; the panel is a sample, not a proof.",
    "TLA+ trace validation of a 60-problem panel + measured panel statistics", "DESIGN.md 6 C06, 7")
chk("C08", "model_checking",
    "BoundsCheck.tla transcribes validity from the property statement; TLC enumerates all 8 345 canonical one-coordinate definitions (special-value mask x weak ordering) "
    "with the expected verdict; each is fed to the real constructor under several value maps (zero / negative / decade positions) and spellings (scalar, list, tuple, (D,), (1,D), int); "
    "D=2,3 products of class representatives; ulp-neighbour cells; short runs compared bit for bit across spellings.",
    "Trusted base: TLC, the value maps and the Normalised oracle of the driver. Exhaustive for D=1 up to order-isomorphism; D=2,3 by representatives.",
    "TLC exhaustive enumeration of BoundsCheck.tla replayed into the real BADS constructor", "DESIGN.md 6 C08")
chk("C11", "model_checking",
    "VarTransf.tla / VarTransfDec.tla give mode, exact rational image, clamping and monotonicity for every bound quadruple and test point of an integer grid around the decade rule "
    "and of the decade grid 1e-12..1e12; every case replayed into the real VariableTransformer alone and inside mixed log/linear D=2,3 transformers (masking code), plus integer-typed bounds; "
    "off-grid and just-outside points are checked by numeric guards (round trip, box, order).",
    "Trusted base: TLC, the driver's guards (off-grid numeric accuracy is a guard, not a TLC decision).",
    "TLC exhaustive enumeration of VarTransf*.tla replayed into the real VariableTransformer", "DESIGN.md 6 C11")
chk("C16", "fault_enumeration",
    "GPTrain.tla models both retry ladders with the lengths of X, Y and the noise vector; TLC checks FitArgsConsistent / NeverAborts / RunCompletes for every fault pattern over the first 8 fit "
    "invocations (<= 4 faults) and generates the patterns; each pattern is replayed by making GP.fit raise LinAlgError at exactly those invocations in deterministic, declared-noise and "
    "specified-noise runs; the faulted trace must validate in full against BadsRunTrace (bounds, budget, truthful result, no crash) and every FitAttempt must have consistent arguments.",
    RUN_NOTE, "TLC-generated fit-fault patterns (GPTrain.tla) replayed into real runs, each validated by TLC against BadsRunTrace.tla", "DESIGN.md 6 C16")

chk("C07", "model_checking",
    "Repro.tla models what a seeded instance reads from process-shared state (NumPy global generator, options.py module global, foreign instances); TLC checks RunInputHistoryFree and "
    "enumerates every schedule (<= 6 steps) of constructing/running the instance under test among foreign draws, seeded/unseeded foreign constructions and foreign runs; each schedule is replayed "
    "in a fresh process for 4 problem kinds (deterministic/noisy from the global RNG x x0 given/omitted) and the full call log and result are compared bit for bit with the two-step reference.",
    "Trusted base: TLC, fork()ed fresh processes (parent has not run pybads before forking). Bounded: schedules <= 6 steps (quick: a stratified subset).",
    "TLC enumeration of Repro.tla schedules replayed in fresh real processes, bit-for-bit comparison", "DESIGN.md 6 C07")
chk("C20", "model_checking",
    "Options.tla models option loading (basic file, user overrides, advanced file with dependent defaults, run-time mutations) for three instances sharing the module global D; TLC checks "
    "UserWins, DependentSeesUser, DefaultsForOwnD, NoLeak and enumerates all construct/run orders; each order is replayed in one process with option snapshots after every step; every option "
    "name of the two ini files is overridden with changed and falsy sentinels; defaults are recomputed independently from the ini text; unknown names must raise ValueError; caller dict/arrays compared byte-wise.",
    "Trusted base: TLC, the independent evaluator of the ini expressions. Bounded: 3 instances (D=2,3,1).",
    "TLC enumeration of Options.tla schedules replayed in a real process + option-name enumeration", "DESIGN.md 6 C20")

ALL = ["C%02d" % i for i in range(1, 21)]


def build():
    checks = []
    for pid in ALL:
        if pid not in CHECKS:
            continue
        c = CHECKS[pid]
        checks.append({
            "property_id": pid,
            "quick_cmd": f"./check {pid} --tier quick",
            "thorough_cmd": f"./check {pid} --tier thorough",
            "evidence_file": f"/verif/evidence/{pid}.json",
            "replay_cmd_template": f"./check {pid} --replay {{path}}",
            "engine": "bv",
            "level_claimed": {"category": c["level"], "text": c["text"], "design_ref": c["ref"]},
            "level_note": c["note"],
            "technique": c["technique"],
        })
    na = [{"property_id": pid, "reason": NA.get(pid, "check not built yet in this session (work in progress); no claim made")}
          for pid in ALL if pid not in CHECKS]
    m = {
        "version": 1,
        "setup_cmd": "cd /verif && ./setup.sh",
        "hooks": {
            "guard": "PYBADS_VERIF",
            "enable": "environment variable PYBADS_VERIF=1 (set by ./check); pybads is an editable install, nothing to rebuild",
            "baseline_off_cmd": "cd /repo && env -u PYBADS_VERIF /venv/bin/python -m pytest -ra -q -p no:cacheprovider --timeout=900 --continue-on-collection-errors",
            "source_commits": ["d5691f9"],
            "add_only": True,
        },
        "engines": [{"name": "bv", "path": "/verif/bv", "serves_properties": sorted(CHECKS),
                     "kind_free_text": "TLA+ specs in /verif/specs checked with TLC; recorder + projection + trace validation; component replay drivers"}],
        "checks": checks,
        "not_applicable": na,
        "notes": "Every check: exit 0 held / 1 VIOLATION / 2 machinery failure. Known findings in /verif/known_findings.json.",
    }
    with open(os.path.join(VERIF, "MANIFEST.json"), "w") as fh:
        json.dump(m, fh, indent=1)
    return m


if __name__ == "__main__":
    m = build()
    import jsonschema
    jsonschema.validate(m, json.load(open("/root/.vp/MANIFEST.schema.json")))
    print("MANIFEST ok:", [c["property_id"] for c in m["checks"]], "NA:", [n["property_id"] for n in m["not_applicable"]])
