"""C11 component check: specs/VarTransf.tla and VarTransfDec.tla enumerate bound
quadruples and test points with the expected mode and exact image; each case is
replayed into the real VariableTransformer (alone and inside mixed D=2,3
transformers); off-grid points are checked against their exact grid neighbours."""
import math
import os
import shutil
from fractions import Fraction

import numpy as np

from .common import MachineryError
from .tlaval import parse_dump
from .tlc import run_tlc

NINF, PINF = 999998, 999999


def _v(code):
    if code == NINF:
        return -math.inf
    if code == PINF:
        return math.inf
    return float(code)


def _mk(quads):
    """quads: list of (lb, plb, pub, ub) floats -> transformer"""
    from pybads.variable_transformer import VariableTransformer
    D = len(quads)
    lb = np.array([[q[0] for q in quads]], dtype=float)
    plb = np.array([[q[1] for q in quads]], dtype=float)
    pub = np.array([[q[2] for q in quads]], dtype=float)
    ub = np.array([[q[3] for q in quads]], dtype=float)
    return VariableTransformer(D, lb, ub, plb, pub)


def _width(q):
    lb, plb, pub, ub = q
    w = (ub - lb) if (math.isfinite(lb) and math.isfinite(ub)) else (pub - plb)
    return max(w, 0.0)


def _check_coord(verdict, vt, i, q, pts, expected_mode, images, site, counters):
    """check coordinate i of transformer vt against the spec for points pts"""
    lb, plb, pub, ub = q
    where = f"bounds(lb,plb,pub,ub)={q} coord={i} D={vt.D}"
    mode = "log" if bool(np.asarray(vt.apply_log_t).ravel()[i]) else "lin"
    if mode != expected_mode:
        verdict.violation("C11.log_rule", site=site, where=where, detail={"got": mode, "want": expected_mode})
        return
    if not (abs(vt.plb.ravel()[i] + 1) < 1e-12 and abs(vt.pub.ravel()[i] - 1) < 1e-12):
        verdict.violation("C11.plausible_to_unit", site=site, where=where,
                          detail={"plb": float(vt.plb.ravel()[i]), "pub": float(vt.pub.ravel()[i])})
    w = _width(q)
    ys = []
    for p in pts:
        counters["points"] += 1
        X = np.array([[0.5 * (qq[1] + qq[2]) for qq in vt._quads]], dtype=float)
        X[0, i] = p
        try:
            Y = vt(X.copy())
            Xb = vt.inverse_transf(Y.copy())
        except Exception as e:
            verdict.violation("C11.transform_raises", site=site, where=where + f" x={p}", detail={"error": repr(e)[:120]})
            continue
        y = float(Y[0, i])
        xb = float(Xb[0, i])
        pc = min(max(p, lb), ub)
        if not math.isfinite(y):
            verdict.violation("C11.output_finite", site=site, where=where + f" x={p}", detail={"y": y})
            continue
        if not (vt.lb.ravel()[i] <= y <= vt.ub.ravel()[i]):
            verdict.violation("C11.forward_output_in_box", site=site, where=where + f" x={p}", detail={"y": y})
        if not (lb <= xb <= ub):
            verdict.violation("C11.inverse_output_in_box", site=site, where=where + f" x={p}", detail={"x_back": xb})
        # box width; for an unbounded coordinate (infinite width) rounding is relative to the point
        tol = 1e-9 * w if (math.isfinite(lb) and math.isfinite(ub)) else 1e-9 * max(w, abs(pc))
        if abs(xb - pc) > tol + 1e-300:
            verdict.violation("C11.round_trip", site=site, where=where + f" x={p}",
                              detail={"x_back": xb, "x_clamped": pc, "width": w})
        img = images.get(p)
        if img is not None:
            want = float(Fraction(img[0], img[1]))
            if abs(y - want) > 1e-9 * max(1.0, abs(want)):
                verdict.violation("C11.exact_image", site=site, where=where + f" x={p}", detail={"y": y, "want": want})
        ys.append((pc, y))
    ys.sort()
    for (p1, y1), (p2, y2) in zip(ys, ys[1:]):
        if (p2 > p1 and not (y2 > y1)) or (p2 == p1 and abs(y2 - y1) > 1e-12 * max(1, abs(y1))):
            verdict.violation("C11.monotone", site=site, where=where, detail={"p": [p1, p2], "y": [y1, y2]})
            break


def run(verdict, tier):
    counters = {"points": 0, "transformers": 0}
    r = run_tlc("VarTransf", timeout=600, dump="out", keep=True)
    if not r.ok:
        if r.violated:
            verdict.violation("C11.design_model:" + ",".join(r.violated), site="VarTransf.tla", where="int grid")
        else:
            raise MachineryError("VarTransf TLC failed: %s\n%s" % (r.summary(), r.output[-1500:]))
    states = parse_dump(os.path.join(r.workdir, "out.dump"))
    shutil.rmtree(r.workdir, ignore_errors=True)
    total_states = r.distinct_states
    groups = {}
    for st in states:
        q = (_v(st["lb"]), float(st["plb"]), float(st["pub"]), _v(st["ub"]))
        g = groups.setdefault(q, {"mode": st["mode"], "pts": {}, "img": {}})
        g["pts"][float(st["x"])] = True
        if st["exact"] and st["xc"] == st["x"]:
            g["img"][float(st["x"])] = tuple(st["img"])
    rd = run_tlc("VarTransfDec", timeout=600, dump="out", keep=True)
    if not rd.ok:
        if rd.violated:
            verdict.violation("C11.design_model:" + ",".join(rd.violated), site="VarTransfDec.tla", where="decades")
        else:
            raise MachineryError("VarTransfDec TLC failed: %s\n%s" % (rd.summary(), rd.output[-1500:]))
    dstates = parse_dump(os.path.join(rd.workdir, "out.dump"))
    shutil.rmtree(rd.workdir, ignore_errors=True)
    total_states += rd.distinct_states
    for st in dstates:
        q = (10.0 ** st["la"], 10.0 ** st["a"], 10.0 ** st["b"], math.inf if st["ub"] == 999 else 10.0 ** st["ub"])
        g = groups.setdefault(q, {"mode": "log", "pts": {}, "img": {}})
        p = 10.0 ** st["c"]
        g["pts"][p] = True
        if st["cc"] == st["c"]:
            g["img"][p] = tuple(st["img"])
    qs = sorted(groups)
    rs = np.random.RandomState(7)
    samples = []
    # ---- each quadruple alone (D = 1) ----------------------------------------
    for qi, q in enumerate(qs):
        g = groups[q]
        try:
            vt = _mk([q])
        except Exception as e:
            verdict.violation("C11.valid_bounds_accepted", site="VariableTransformer.__init__", where=f"bounds={q}",
                              detail={"error": repr(e)[:120]})
            continue
        vt._quads = [q]
        counters["transformers"] += 1
        pts = sorted(g["pts"])
        # off-grid points between grid neighbours and just outside the box
        extra = []
        lo = q[0] if math.isfinite(q[0]) else q[1] - 3 * (q[2] - q[1])
        hi = q[3] if math.isfinite(q[3]) else q[2] + 3 * (q[2] - q[1])
        for _ in range(3 if tier == "quick" else 12):
            extra.append(float(lo + (hi - lo) * rs.rand()))
        if math.isfinite(q[0]):
            extra += [q[0], float(np.nextafter(q[0], -np.inf)), q[0] - 1e-9 * max(1.0, abs(q[0]))]
        if math.isfinite(q[3]):
            extra += [q[3], float(np.nextafter(q[3], np.inf)), q[3] + 1e-9 * max(1.0, abs(q[3]))]
        extra += [q[1], q[2]]
        if g["mode"] == "log":
            pts = [p for p in pts if p > 0]
            extra = [p for p in extra if p > 0]
        _check_coord(verdict, vt, 0, q, sorted(set(pts + extra)), g["mode"], g["img"], "VariableTransformer:D1", counters)
        if len(samples) < 3 and g["img"] and qi % 97 == 0:
            samples.append({"bounds": list(q), "mode": g["mode"], "exact_images": {str(k): list(v) for k, v in list(g["img"].items())[:4]}})
    # ---- integer-typed bound arrays define the same transform -------------------
    from pybads.variable_transformer import VariableTransformer
    n_int = 0
    for q in qs:
        if not all(math.isfinite(v) and float(v).is_integer() and abs(v) < 1e9 for v in q):
            continue
        n_int += 1
        try:
            vi = VariableTransformer(1, np.array([[int(q[0])]]), np.array([[int(q[3])]]),
                                     np.array([[int(q[1])]]), np.array([[int(q[2])]]))
            vf = _mk([q])
        except Exception as e:
            verdict.violation("C11.valid_bounds_accepted", site="VariableTransformer.__init__:int", where=f"bounds={q}",
                              detail={"error": repr(e)[:120]})
            continue
        for name in ("lb", "ub", "plb", "pub"):
            a, b = np.asarray(getattr(vi, name), float), np.asarray(getattr(vf, name), float)
            if not np.allclose(a, b, rtol=1e-12, atol=1e-12):
                verdict.violation("C11.plausible_to_unit", site="VariableTransformer:int_dtype",
                                  where=f"bounds={q} attribute={name}", detail={"int": a.tolist(), "float": b.tolist()})
                break
    counters["int_dtype_cases"] = n_int
    # ---- grid_units (pybads/search/grid_functions.py): the multi-point route into the transformer must give the
    # same images whatever the dtype / number of rows of the point array --------------------------------------
    from pybads.search.grid_functions import grid_units
    n_gu = 0
    for (lo, pl, pu, hi) in ((-4.0, -2.0, 2.0, 4.0), (0.0, 1.0, 3.0, 8.0), (1.0, 2.0, 500.0, 1000.0)):
        vt2 = VariableTransformer(2, np.array([[lo, lo]]), np.array([[hi, hi]]), np.array([[pl, pl]]), np.array([[pu, pu]]))
        base = np.array([[pl, pu], [lo + 1.0, hi - 1.0], [pl + 1.0, pl], [hi - 1.0, lo + 1.0]])
        for dt, tol in ((np.float64, 1e-12), (np.int64, 1e-12), (np.float32, 1e-6)):
            for nrows in (1, 2, 4):
                X = base[:nrows].astype(dt)
                n_gu += 1
                try:
                    U = np.asarray(grid_units(X, vt2), dtype=float)
                    want = np.vstack([np.asarray(vt2(np.asarray(X[i:i + 1], dtype=float)), dtype=float) for i in range(nrows)])
                    ok = U.shape == want.shape and np.allclose(U, want, rtol=0, atol=tol * (hi - lo))
                except Exception as e:
                    ok = False
                    U = repr(e)[:100]
                if not ok:
                    verdict.violation("C11.round_trip", site="grid_units",
                                      where=f"bounds=({lo},{pl},{pu},{hi}) dtype={np.dtype(dt).name} rows={nrows}",
                                      detail={"got": U if isinstance(U, str) else U.tolist(),
                                              "want": want.tolist() if not isinstance(U, str) else None})
    counters["grid_units_cases"] = n_gu
    # ---- nonlinear scaling switched off: an explicit all-zero flag vector (what BADS passes for
    # options['nonlinear_scaling'] = False) means "affine everywhere", also on log-eligible coordinates ------------
    n_off = 0
    for quads in ([(1e-3, 1e-2, 1e2, 1e3)], [(1.0, 2.0, 500.0, 1000.0), (-4.0, -2.0, 2.0, 4.0)],
                  [(0.1, 1.0, 1e5, math.inf), (1e-2, 1e-1, 1e1, 1e2), (-3.0, -1.0, 1.0, 3.0)]):
        D = len(quads)
        args = [np.array([[q[i] for q in quads]], dtype=float) for i in (0, 3, 1, 2)]
        for flags in (np.zeros((1, D)), np.zeros((1, D), dtype=bool)):
            n_off += 1
            try:
                vt0 = VariableTransformer(D, args[0], args[1], args[2], args[3], apply_log_t=flags)
                got = np.asarray(vt0.apply_log_t).astype(bool).ravel()
            except Exception as e:
                verdict.violation("C11.valid_bounds_accepted", site="VariableTransformer.__init__:flags_off",
                                  where=f"bounds={quads}", detail={"error": repr(e)[:120]})
                continue
            if got.any():
                verdict.violation("C11.log_rule", site="VariableTransformer:nonlinear_scaling_off", where=f"bounds={quads}",
                                  detail={"got": got.tolist(), "want": [False] * D})
            else:
                # affine: the midpoint of the plausible range maps to 0
                mid = np.array([[0.5 * (q[1] + q[2]) for q in quads]])
                y = np.asarray(vt0(mid), dtype=float).ravel()
                if not np.allclose(y, 0.0, atol=1e-9):
                    verdict.violation("C11.exact_image", site="VariableTransformer:nonlinear_scaling_off",
                                      where=f"bounds={quads}", detail={"y": y.tolist(), "want": 0.0})
    counters["scaling_off_cases"] = n_off
    # ---- mixed transformers (D = 2, 3): the masking code ----------------------
    logs = [q for q in qs if groups[q]["mode"] == "log"]
    lins = [q for q in qs if groups[q]["mode"] == "lin"]
    infs = [q for q in qs if not (math.isfinite(q[0]) and math.isfinite(q[3]))]
    nmix = 60 if tier == "quick" else 600
    for k in range(nmix):
        D = 2 + (k % 2)
        combo = [logs[rs.randint(len(logs))], lins[rs.randint(len(lins))]]
        if D == 3:
            combo.append(infs[rs.randint(len(infs))])
        order = list(rs.permutation(D))
        combo = [combo[i] for i in order]
        try:
            vt = _mk(combo)
        except Exception as e:
            verdict.violation("C11.valid_bounds_accepted", site="VariableTransformer.__init__", where=f"bounds={combo}",
                              detail={"error": repr(e)[:120]})
            continue
        vt._quads = combo
        counters["transformers"] += 1
        for i, q in enumerate(combo):
            g = groups[q]
            pts = sorted(g["pts"])
            if g["mode"] == "log":
                pts = [p for p in pts if p > 0]
            _check_coord(verdict, vt, i, q, pts, g["mode"], g["img"], f"VariableTransformer:D{D}mixed", counters)
    verdict.coverage.update({"vartransf_states": total_states, "vartransf_bound_sets": len(qs),
                             "vartransf_transformers": counters["transformers"],
                             "vartransf_points": counters["points"], "vartransf_samples": samples})
    return total_states, counters["points"]
