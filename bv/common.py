"""Shared helpers: evidence writer, known findings, verdict printing."""
import json
import os
import sys
import time

VERIF = os.path.dirname(os.path.dirname(os.path.abspath(__file__)))
EVID = os.path.join(VERIF, "evidence")
REPLAYS = os.path.join(VERIF, "replays")
CACHE = os.path.join(VERIF, ".cache")
REPO = os.environ.get("VERIF_REPO", "/repo")


def seed():
    try:
        return int(os.environ.get("VERIF_SEED", "0"))
    except ValueError:
        return 0


class MachineryError(Exception):
    """Raised when the framework itself failed (exit code 2)."""


# --------------------------------------------------------------------------
# known findings
# --------------------------------------------------------------------------
def load_findings():
    p = os.path.join(VERIF, "known_findings.json")
    with open(p) as fh:
        data = json.load(fh)
    return data


def match_finding(prop, clause, site=None, detail=None):
    """Return the open known-finding entry matching (prop, clause, site) or None.

    An entry matches when property and clause are equal and, if the entry
    names `sites`, the site is one of them, and, if it names `when`
    (a dict of detail keys to allowed values), the detail agrees."""
    for e in load_findings().get("open", []):
        if e["property"] != prop or e["clause"] != clause:
            continue
        if e.get("sites") and site not in e["sites"]:
            continue
        w = e.get("when")
        if w:
            d = dict((detail or {}).get("event") or {})
            d.update({k: v for k, v in (detail or {}).items() if k != "event"})
            okw = True
            for k, allowed in w.items():
                if d.get(k) not in allowed:
                    okw = False
                    break
            if not okw:
                continue
        return e
    return None


# --------------------------------------------------------------------------
# verdict bookkeeping for one check run
# --------------------------------------------------------------------------
class Verdict:
    def __init__(self, prop, tier, level):
        self.prop = prop
        self.tier = tier
        self.level = level
        self.t0 = time.time()
        self.violations = []      # dicts: clause, site, where, detail
        self.known = {}           # finding id -> count
        self.coverage = {}
        self.assumptions = []
        self.notes = []

    def violation(self, clause, site=None, where=None, detail=None):
        """Register a violated clause; classified against known findings."""
        e = match_finding(self.prop, clause, site, detail)
        if e is not None:
            self.known.setdefault(e["id"], {"entry": e, "count": 0, "first": where})
            self.known[e["id"]]["count"] += 1
            return False
        self.violations.append(
            {"clause": clause, "site": site, "where": where, "detail": detail})
        return True

    def finish(self, replay_builder=None):
        """Write evidence, print verdict lines, return exit code."""
        wall = time.time() - self.t0
        os.makedirs(EVID, exist_ok=True)
        cov = dict(self.coverage)
        cov.setdefault("known_findings_seen",
                       {k: v["count"] for k, v in self.known.items()})
        if self.violations:
            cov["violated_clauses"] = sorted(
                {v["clause"] for v in self.violations})
        ev = {
            "property_id": self.prop,
            "tier": self.tier,
            "seed": seed(),
            "level": self.level,
            "coverage": cov,
            "assumptions": self.assumptions,
            "wall_s": round(wall, 2),
            "violations": len(self.violations),
        }
        with open(os.path.join(EVID, f"{self.prop}.json"), "w") as fh:
            json.dump(ev, fh, indent=1, default=_jd)
        for k, v in sorted(self.known.items()):
            e = v["entry"]
            print(f"KNOWN-FINDING: property={self.prop} {e['id']}: {e['what']} "
                  f"(seen {v['count']}x this run)")
        if self.violations:
            path = None
            if replay_builder is not None:
                try:
                    path = replay_builder(self.violations)
                except Exception as ex:  # pragma: no cover
                    print(f"(replay bundle failed: {ex})")
            if path is None:
                path = write_replay(self.prop, {"violations": self.violations})
            seen = set()
            for v in self.violations:
                key = (v["clause"], v["site"])
                if key in seen:
                    continue
                seen.add(key)
                print(f"  violated clause {v['clause']} site={v['site']} "
                      f"where={v['where']} detail={json.dumps(v['detail'], default=_jd)[:300]}")
            print(f"VIOLATION property={self.prop} replay={path}")
            return 1
        print(f"OK property={self.prop} tier={self.tier} "
              f"wall={wall:.1f}s coverage={ {k: v for k, v in cov.items() if isinstance(v, (int, float, bool))} }")
        return 0


def _jd(o):
    try:
        import numpy as np
        if isinstance(o, np.ndarray):
            return o.tolist()
        if isinstance(o, (np.integer,)):
            return int(o)
        if isinstance(o, (np.floating,)):
            return float(o)
        if isinstance(o, (np.bool_,)):
            return bool(o)
    except Exception:
        pass
    if isinstance(o, (set, frozenset)):
        return sorted(o)
    if isinstance(o, bytes):
        return o.hex()
    return repr(o)


def write_replay(prop, payload, name=None):
    d = os.path.join(REPLAYS, prop)
    os.makedirs(d, exist_ok=True)
    if name is None:
        name = f"{prop}-{int(time.time())}-{os.getpid()}.json"
    p = os.path.join(d, name)
    with open(p, "w") as fh:
        json.dump(payload, fh, indent=1, default=_jd)
    return p


def tier_from_args(argv):
    tier = os.environ.get("VERIF_TIER", "quick")
    if "--tier" in argv:
        tier = argv[argv.index("--tier") + 1]
    if tier not in ("quick", "thorough"):
        tier = "quick"
    return tier
